#!/bin/sh
# Determinism self-test: N scenarios from every generator family, executed in two fresh processes
# (1 worker, 16 workers); the full event logs (link trace with virtual timestamps, indications,
# probes, outcome, filesystem content) are hashed per scenario and the two listings diffed.
# exit 0 = identical; exit 2 = harness not deterministic (never reported as a violation)
N="${1:-2000}"
cd /verif/harness && RUSTFLAGS="--cfg cfdp_verif --cfg tokio_unstable" cargo build --release --offline >/dev/null 2>&1 || { echo "build failed"; exit 2; }
A=/dev/shm/cfdp-verif-det.$$.a; B=/dev/shm/cfdp-verif-det.$$.b
/verif/target/release/verif selftest determinism "$N" 1 > "$A" || exit 2
/verif/target/release/verif selftest determinism "$N" 16 > "$B" || exit 2
if cmp -s "$A" "$B"; then echo "determinism: $N scenarios x 2 processes (1 and 16 workers): identical ($(md5sum < "$A" | cut -c1-12))"; rm -f "$A" "$B"; exit 0
else echo "HARNESS-ERROR: non-deterministic runs:"; diff "$A" "$B" | head -20; rm -f "$A" "$B"; exit 2; fi
