//! Registry: for every claimed property, the scenario jobs per tier, the oracle and the reach probes.

use cfdp_core::daemon::Indication;

use crate::{
    analysis::{Analysis, Violation},
    gen::{self, Knobs, Profile},
    oracle,
    prng::{mix, Rng},
    runner::{Ctx, Job, Oracle, ProbeFn},
    scenario::*,
    world::{EvKind, Fate},
};

#[derive(Clone, Copy, PartialEq, Eq, Debug)]
pub enum Tier {
    Quick,
    Thorough,
}

pub struct Check {
    pub prop: &'static str,
    pub level: &'static str,
    pub rule: &'static str,
    pub assumptions: Vec<&'static str>,
    pub oracle: Box<Oracle>,
    pub cross: Box<Oracle>,
    pub probes: Box<ProbeFn>,
    pub build: fn(&Ctx, Tier, u64) -> Vec<Job<'static>>,
    /// the scenario domain of the property (minimisation never leaves it)
    pub admissible: Box<dyn Fn(&Scenario) -> bool + Sync>,
    /// components that ran real / stubbed, for the evidence file
    pub real: Vec<&'static str>,
    pub stub: Vec<&'static str>,
}

/// Clauses of a property's oracle that are pure safety statements over a prefix of a history: they
/// may be judged on what a run had recorded when it stopped making progress (a hang is C03's
/// subject; the run that hangs may have broken this property before it hung).
pub fn safety_clauses(prop: &str) -> &'static [&'static str] {
    match prop {
        "C19" => &["transmits_while_suspended", "timer_fault_while_suspended", "limit_fault_counts_suspended_time"],
        "C18" => &["receiver_sent_forbidden_kind"],
        "C20" => &["receiver_progress_exceeds_file_size", "sender_progress_exceeds_file_size"],
        _ => &[],
    }
}

pub const REAL_SIM: [&str; 8] = [
    "cfdp_core::pdu codec (every PDU crosses the link as bytes)",
    "cfdp_daemon::Daemon (routing, spawn, reaping, select loop)",
    "SendTransaction / RecvTransaction and their per-transaction select loops",
    "timer::{Counter,Timer} (clock = tokio paused clock via hook H1)",
    "segments::Segments",
    "NativeFileStore on tmpfs (/dev/shm), wrapped by a recording FileStore seam",
    "tokio current_thread runtime, paused clock, seeded select! (rng_seed)",
    "tokio mpsc/oneshot channels between transport, daemon, transactions and user",
];
pub const STUB_SIM: [&str; 4] = [
    "UdpTransport + kernel UDP -> SimTransport (PDUTransport trait) over a scripted byte link",
    "CFDP user -> SimUser (issues primitives from the script, timestamps indications)",
    "non-conforming remote entity -> ScriptedPeer (raw datagrams injected at triggers)",
    "OS clock -> tokio paused clock (virtual time, discrete-event)",
];

pub fn common_probes(a: &Analysis, out: &mut Vec<&'static str>) {
    // crash / restart reach
    for e in &a.rec.events {
        match &e.k {
            crate::world::EvKind::Crash { ent } => {
                out.push("entity_crashed");
                for t in a.txns.values() {
                    if t.dst_ent == Some(*ent) && t.at_dst.inds.iter().any(|i| i.seq < e.seq) {
                        out.push("receiver_crashed_in_mid_transaction");
                        if t.at_dst.finished().iter().any(|(i, f)| i.seq > e.seq && crate::analysis::is_success(f)) {
                            out.push("delivered_by_the_restarted_receiver");
                        }
                    }
                    if t.src_ent == *ent && t.at_src.inds.iter().any(|i| i.seq < e.seq) && !t.at_src.inds.iter().any(|i| i.seq < e.seq && matches!(&i.ind, cfdp_core::daemon::Indication::Report(r) if r.state == cfdp_core::transaction::TransactionState::Terminated)) {
                        out.push("sender_crashed_in_mid_transaction");
                    }
                }
            }
            crate::world::EvKind::Restart { .. } => out.push("entity_restarted"),
            crate::world::EvKind::Note { msg } if msg.contains("lost: entity down") => out.push("datagram_lost_at_a_down_entity"),
            _ => {}
        }
    }
    let mut eof_seen_at: Option<u64> = None;
    let mut first_pass_done: std::collections::HashMap<(u64, u64), bool> = Default::default();
    for s in &a.sends {
        if s.injected {
            out.push("injected_pdu");
            continue;
        }
        match s.kind {
            Kind::Eof => {
                if let Some(p) = &s.pdu {
                    let k = crate::analysis::pdu_key(p);
                    if first_pass_done.insert(k, true).is_some() {
                        out.push("eof_retransmitted");
                    }
                }
                if matches!(s.fate, Fate::Dropped | Fate::Blackout) {
                    out.push("eof_lost");
                }
                eof_seen_at.get_or_insert(s.seq);
            }
            Kind::Nak => {
                if let Some(p) = &s.pdu {
                    let k = crate::analysis::pdu_key(p);
                    if !first_pass_done.contains_key(&k) {
                        out.push("nak_during_first_pass");
                    }
                    if let Some(cfdp_core::pdu::Operations::Nak(n)) = crate::analysis::op_of(p) {
                        if n.segment_requests.iter().any(|r| r.start_offset == 0 && r.end_offset == 0) {
                            out.push("nak_requests_metadata");
                        }
                        if n.segment_requests.iter().any(|r| r.start_offset == 0 && r.end_offset > 0) {
                            out.push("nak_requests_first_segment");
                        }
                    }
                }
                if matches!(s.fate, Fate::Dropped | Fate::Blackout) {
                    out.push("nak_lost");
                }
            }
            Kind::Fin => {
                if matches!(s.fate, Fate::Dropped | Fate::Blackout) {
                    out.push("finished_lost");
                }
            }
            Kind::Md => {
                if matches!(s.fate, Fate::Dropped | Fate::Blackout) {
                    out.push("metadata_lost");
                }
            }
            Kind::Fd => {
                if matches!(s.fate, Fate::Dropped | Fate::Blackout) {
                    if let Some(r) = s.pdu.as_ref().and_then(|p| crate::analysis::fd_range(p)) {
                        if r.0 == 0 {
                            out.push("first_segment_lost");
                        } else {
                            out.push("later_segment_lost");
                        }
                    }
                }
            }
            Kind::AckEof | Kind::AckFin => {
                if matches!(s.fate, Fate::Dropped | Fate::Blackout) {
                    out.push("ack_lost");
                }
            }
            _ => {}
        }
    }
    for t in a.txns.values() {
        let fins = t.at_dst.sent.iter().filter(|s| s.kind == Kind::Fin).count();
        if fins > 1 {
            out.push("finished_retransmitted");
        }
        if t.at_dst.incarnations > 1 {
            out.push("respawn_after_end");
        }
        // EOF arriving after the receiver reported Finished
        if let Some((fi, _)) = t.at_dst.first_finished() {
            if t.at_dst.recvd.iter().any(|r| r.seq > fi.seq && r.pdu.as_ref().map(|p| crate::world::kind_of(p) == Kind::Eof).unwrap_or(false)) {
                out.push("eof_after_receiver_finished");
            }
            if t.at_dst.recvd.iter().any(|r| r.seq > fi.seq && r.pdu.as_ref().map(|p| crate::world::kind_of(p) == Kind::Fd).unwrap_or(false)) {
                out.push("data_after_receiver_finished");
            }
        }
        for i in t.at_src.inds.iter().chain(t.at_dst.inds.iter()) {
            match &i.ind {
                Indication::Fault(f) => out.push(match f.condition {
                    cfdp_core::pdu::Condition::PositiveLimitReached => "fault_positive_limit",
                    cfdp_core::pdu::Condition::NakLimitReached => "fault_nak_limit",
                    cfdp_core::pdu::Condition::InactivityDetected => "fault_inactivity",
                    cfdp_core::pdu::Condition::FileChecksumFailure => "fault_checksum",
                    cfdp_core::pdu::Condition::FilesizeError => "fault_filesize",
                    cfdp_core::pdu::Condition::FileStoreRejection => "fault_filestore",
                    _ => "fault_other",
                }),
                Indication::Abandon(_) => out.push("abandon"),
                Indication::Suspended(_) => out.push("suspended"),
                Indication::Resumed(_) => out.push("resumed"),
                _ => {}
            }
        }
    }
    for e in &a.rec.events {
        if let EvKind::User { op, accepted: true, .. } = &e.k {
            out.push(match op {
                UserOp::Cancel => "user_cancel",
                UserOp::Suspend => "user_suspend",
                UserOp::Resume => "user_resume",
                UserOp::PromptNak => "user_prompt_nak",
                UserOp::PromptKa => "user_prompt_keepalive",
                UserOp::Report => "user_report",
            });
        }
    }
    out.sort();
    out.dedup();
}

/// configuration domain common to all properties
pub fn domain_basic(sc: &Scenario) -> bool {
    sc.ents.iter().all(|e| e.t_ack >= 1 && e.t_nak >= 1 && e.t_inact >= 1 && e.limit >= 1 && e.seg >= 24)
}

/// the C02 envelope (DESIGN section 6/C02)
pub fn in_c02_envelope(sc: &Scenario) -> bool {
    if !domain_basic(sc) {
        return false;
    }
    let lim = gen::min_limit(sc);
    let t = gen::min_timeout_us(sc);
    let mut losses = 0u32;
    for e in &sc.script {
        match e {
            Entry::Fault { act, .. } => match act {
                Act::Drop | Act::Flip { .. } | Act::Trunc { .. } => losses += 1,
                Act::Delay { us } => {
                    if *us > t / 4 {
                        return false;
                    }
                }
                Act::Dup { n, gap_us } => {
                    if *n as u64 * *gap_us > t / 4 {
                        return false;
                    }
                }
            },
            Entry::User { op, .. } => {
                if matches!(op, UserOp::Cancel | UserOp::Suspend) {
                    return false;
                }
            }
            Entry::Blackout { .. } | Entry::ClockJump { .. } | Entry::Stall { .. } | Entry::Crash { .. } | Entry::Restart { .. } | Entry::FsFault { .. } | Entry::Inject { .. } => return false,
        }
    }
    if losses >= lim {
        return false;
    }
    let m = sc.ents.iter().map(|e| e.t_ack.max(e.t_nak)).max().unwrap_or(1);
    if sc.ents.iter().any(|e| e.t_inact < m || e.nak_delay_ms * 1000 > t / 2) {
        return false;
    }
    // latency and serialisation of a whole pass stay below a quarter of the shortest timer
    let pdus: u64 = sc.puts.iter().map(|p| p.file.as_ref().map(|f| f.size / sc.ents[p.src].seg.max(1) as u64 + 4).unwrap_or(4)).sum();
    let seg = sc.ents.iter().map(|e| e.seg as u64).max().unwrap_or(1024);
    let pass = pdus * (sc.ser_us + sc.ser_ns_byte * (seg + 40) / 1000) + sc.lat_us;
    pass <= t / 4
}

fn no_cross(_: &Analysis) -> Vec<Violation> {
    vec![]
}

/// monitors of other properties that are sound on *any* run (safety clauses only)
pub fn safety_cross(a: &Analysis) -> Vec<Violation> {
    let mut out = oracle::c01(a);
    out.extend(oracle::c12_sentinel(a));
    out.extend(crate::props::c07::c07(a));
    out
}

pub fn estimate_profile(sc: &Scenario) -> Profile {
    let mut p = Profile::default();
    if let Some(put) = sc.puts.first() {
        let seg = sc.ents[put.src].seg.max(1) as u64;
        let n = put.file.as_ref().map(|f| f.size.div_ceil(seg)).unwrap_or(0);
        p.fwd.push(Kind::Md);
        for _ in 0..n {
            p.fwd.push(Kind::Fd);
        }
        p.fwd.push(Kind::Eof);
        p.fwd.push(Kind::AckFin);
        p.rev = vec![Kind::AckEof, Kind::Fin];
    }
    p
}

// ---------------------------------------------------------------------------------------------

fn c01_build(_ctx: &Ctx, tier: Tier, seed: u64) -> Vec<Job<'static>> {
    let (n_ff, n_wild) = match tier {
        Tier::Quick => (5_000, 100_000),
        Tier::Thorough => (50_000, 1_500_000),
    };
    let ff = Job {
        label: "fault-free swarm (strict)".into(),
        n: n_ff,
        gen: Box::new(move |i| {
            let mut rng = Rng::new(mix(seed ^ 0xC01F, i as u64));
            let k = Knobs::default();
            let mut sc = gen::pair_cfg(&mut rng, &k);
            gen::add_file_put(&mut sc, &mut rng, &k, 0, 1, 0);
            sc
        }),
    };
    let wild = Job {
        label: "unbounded link faults x content x config swarm".into(),
        n: n_wild,
        gen: Box::new(move |i| {
            let mut rng = Rng::new(mix(seed ^ 0xC011, i as u64));
            let k = Knobs { envelope: rng.chance(1, 2), ..Knobs::default() };
            let mut sc = gen::pair_cfg(&mut rng, &k);
            gen::add_file_put(&mut sc, &mut rng, &k, 0, 1, 0);
            let prof = estimate_profile(&sc);
            sc.script = gen::wild_script(&mut rng, &sc, &prof, 0, 1);
            sc
        }),
    };
    let disk = Job {
        label: "storage faults: the n-th open fails, the staging file cannot be created, or the staging file sits on a full disk (every write fails with ENOSPC), at the sender or the receiver, alone or under link faults".into(),
        n: n_wild / 5,
        gen: Box::new(move |i| {
            let mut rng = Rng::new(mix(seed ^ 0xC01D, i as u64));
            let k = Knobs { envelope: rng.chance(1, 2), ..Knobs::default() };
            let mut sc = gen::pair_cfg(&mut rng, &k);
            gen::add_file_put(&mut sc, &mut rng, &k, 0, 1, 0);
            if rng.chance(1, 2) {
                let prof = estimate_profile(&sc);
                sc.script = gen::wild_script(&mut rng, &sc, &prof, 0, 1);
            }
            add_storage_faults(&mut sc, &mut rng);
            sc
        }),
    };
    let corrupt = Job {
        label: "undetected-by-CRC corruption: PDU CRC off, modular checksum, one bit of the first data octet of a file-data PDU (first transmission or retransmission) flipped in transit, FileChecksumFailure handler drawn from {default, Cancel, Suspend, Ignore, Abandon}, alone or with one more loss".into(),
        n: n_wild / 10,
        gen: Box::new(move |i| {
            let mut rng = Rng::new(mix(seed ^ 0xC01C, i as u64));
            let k = Knobs { envelope: true, max_segments: 8, ..Knobs::default() };
            let mut sc = gen::pair_cfg(&mut rng, &k);
            for e in sc.ents.iter_mut() {
                e.crc = false;
                e.null_cksum = false;
            }
            gen::add_file_put(&mut sc, &mut rng, &k, 0, 1, 0);
            let prof = estimate_profile(&sc);
            let nfd = prof.fwd.iter().filter(|x| **x == Kind::Fd).count() as u64;
            // file-data PDU: 4 fixed octets, three identifiers, 32-bit offset, then the data
            let bit = 8 * (8 + 3 * sc.idw as u32) + rng.below(8) as u32;
            sc.script.push(Entry::Fault { src: 0, dst: 1, sel: Sel::Kind(Kind::Fd, rng.below(nfd + 2) as u32), act: Act::Flip { bits: vec![bit] } });
            if rng.chance(1, 3) {
                sc.script.push(Entry::Fault { src: 0, dst: 1, sel: Sel::Nth(rng.below(prof.fwd.len() as u64 + 2) as u32), act: Act::Drop });
            }
            let h = rng.below(5) as u8;
            if h > 0 {
                sc.ents[1].handlers.push((5, h.min(4)));
                if rng.chance(1, 2) {
                    sc.ents[0].handlers.push((5, h.min(4)));
                }
            }
            sc
        }),
    };
    vec![ff, wild, disk, corrupt]
}

/// 1..2 storage faults at seeded places
pub fn add_storage_faults(sc: &mut Scenario, rng: &mut Rng) {
    for _ in 0..rng.range(1, 2) {
        let ent = if rng.chance(3, 4) { 1 } else { 0 };
        let (op, nth) = match rng.below(4) {
            0 | 1 => ("open", rng.below(3) as u32),
            2 => ("tempfile", rng.below(2) as u32),
            _ => ("full", rng.below(2) as u32),
        };
        sc.script.push(Entry::FsFault { ent, op: op.into(), nth });
    }
}

fn c02_build(ctx: &Ctx, tier: Tier, seed: u64) -> Vec<Job<'static>> {
    let (n_ff, n_rand, grid_cfgs, pairs) = match tier {
        Tier::Quick => (4_000, 60_000, 48, false),
        Tier::Thorough => (20_000, 600_000, 200, true),
    };
    let ff = Job {
        label: "fault-free swarm (strict)".into(),
        n: n_ff,
        gen: Box::new(move |i| {
            let mut rng = Rng::new(mix(seed ^ 0xC02F, i as u64));
            let k = Knobs { unack: Some(false), ..Knobs::default() };
            let mut sc = gen::pair_cfg(&mut rng, &k);
            gen::add_file_put(&mut sc, &mut rng, &k, 0, 1, 0);
            sc
        }),
    };
    // systematic sweep: grid of configurations, every single placement (and pairs) over the
    // fault-free exchange
    let mut sweep: Vec<Scenario> = vec![];
    let root = ctx.root(997);
    let mut rng = Rng::new(seed ^ 0xC025);
    for ci in 0..grid_cfgs {
        let k = Knobs { unack: Some(false), max_segments: 4, limit_min: 2, limit_max: 4, ..Knobs::default() };
        let mut sc = gen::pair_cfg(&mut rng, &k);
        let seg = sc.ents[0].seg as u64;
        let sizes = [0, 1, seg - 1, seg, seg + 1, 3 * seg, 3 * seg + 1];
        let size = sizes[ci % sizes.len()];
        sc.puts.push(Put {
            src: 0,
            dst: 1,
            unack: false,
            src_name: "s.bin".into(),
            dst_name: "d.bin".into(),
            file: Some(FileSpec { size, class: gen::draw_content(&mut rng, seg), cseed: rng.next_u64() }),
            reqs: vec![],
            msgs: vec![],
            at: Trigger::At(0),
        });
        let prof = gen::profile(&sc, &root, 0, 1);
        let lim = gen::min_limit(&sc);
        let t4 = gen::min_timeout_us(&sc) / 4;
        let mut sites: Vec<(usize, usize, Sel)> = vec![];
        for n in 0..prof.fwd.len() as u32 {
            sites.push((0, 1, Sel::Nth(n)));
        }
        for n in 0..prof.rev.len() as u32 {
            sites.push((1, 0, Sel::Nth(n)));
        }
        // the retransmitted instances
        for kd in [Kind::Eof, Kind::Md, Kind::Fd] {
            sites.push((0, 1, Sel::Kind(kd, prof.fwd.iter().filter(|x| **x == kd).count() as u32)));
        }
        for kd in [Kind::Fin, Kind::Nak, Kind::AckEof] {
            sites.push((1, 0, Sel::Kind(kd, prof.rev.iter().filter(|x| **x == kd).count() as u32)));
        }
        let acts = [
            Act::Drop,
            Act::Dup { n: 1, gap_us: sc.lat_us },
            Act::Delay { us: (sc.lat_us * 3 + 10 * (sc.ser_us + 1)).min(t4) },
        ];
        for (s, d, sel) in sites.iter() {
            for act in acts.iter() {
                if *act == Act::Drop && lim < 2 {
                    continue;
                }
                let mut x = sc.clone();
                x.script.push(Entry::Fault { src: *s, dst: *d, sel: sel.clone(), act: act.clone() });
                sweep.push(x);
            }
        }
        if pairs {
            for i in 0..sites.len() {
                for j in (i + 1)..sites.len() {
                    for (a1, a2) in [(0usize, 0usize), (0, 1), (1, 0), (0, 2), (2, 0), (1, 2)] {
                        let losses = (a1 == 0) as u32 + (a2 == 0) as u32;
                        if losses >= lim {
                            continue;
                        }
                        let mut x = sc.clone();
                        x.script.push(Entry::Fault { src: sites[i].0, dst: sites[i].1, sel: sites[i].2.clone(), act: acts[a1].clone() });
                        x.script.push(Entry::Fault { src: sites[j].0, dst: sites[j].1, sel: sites[j].2.clone(), act: acts[a2].clone() });
                        sweep.push(x);
                    }
                }
            }
        }
    }
    let sweep = std::sync::Arc::new(sweep);
    let sw = sweep.clone();
    let sweep_job = Job {
        label: "systematic single/pair placements over the fault-free exchange".into(),
        n: sweep.len(),
        gen: Box::new(move |i| sw[i].clone()),
    };
    let rand = Job {
        label: "seeded admissible scripts on larger files".into(),
        n: n_rand,
        gen: Box::new(move |i| {
            let mut rng = Rng::new(mix(seed ^ 0xC02A, i as u64));
            let k = Knobs { unack: Some(false), max_segments: 64, max_bytes: 64 * 1024, ..Knobs::default() };
            let mut sc = gen::pair_cfg(&mut rng, &k);
            gen::add_file_put(&mut sc, &mut rng, &k, 0, 1, 0);
            let prof = estimate_profile(&sc);
            sc.script = gen::admissible_script(&mut rng, &sc, &prof, 0, 1);
            sc
        }),
    };
    vec![ff, sweep_job, rand]
}

fn c03_build(ctx: &Ctx, tier: Tier, seed: u64) -> Vec<Job<'static>> {
    let (grid_cfgs, n_wild) = match tier {
        Tier::Quick => (40, 40_000),
        Tier::Thorough => (600, 600_000),
    };
    let root = ctx.root(997);
    let mut rng = Rng::new(seed ^ 0xC035);
    let mut sweep: Vec<Scenario> = vec![];
    for ci in 0..grid_cfgs {
        let k = Knobs { max_segments: 5, envelope: rng.chance(1, 2), ..Knobs::default() };
        let mut sc = gen::pair_cfg(&mut rng, &k);
        gen::add_file_put(&mut sc, &mut rng, &k, 0, 1, 0);
        // handlers for the limit conditions: default / cancel / abandon (termination obligatory)
        for e in sc.ents.iter_mut() {
            for cond in [1u8, 7, 8] {
                match rng.below(3) {
                    0 => {}
                    1 => e.handlers.push((cond, 1)),
                    _ => e.handlers.push((cond, 4)),
                }
            }
        }
        let prof = gen::profile(&sc, &root, 0, 1);
        let _ = ci;
        for dirs in [vec![(0usize, 1usize)], vec![(1, 0)], vec![(0, 1), (1, 0)]] {
            // cut before anything
            let mut cuts: Vec<Trigger> = vec![Trigger::At(0)];
            for n in 0..prof.fwd.len() as u32 {
                cuts.push(Trigger::AfterPdu { src: 0, dst: 1, n });
            }
            for n in 0..prof.rev.len() as u32 {
                cuts.push(Trigger::AfterPdu { src: 1, dst: 0, n });
            }
            for c in cuts {
                for heal in [false, true] {
                    let mut x = sc.clone();
                    for (s, d) in &dirs {
                        x.script.push(Entry::Blackout {
                            src: *s,
                            dst: *d,
                            from: c.clone(),
                            until: if heal { Trigger::Plus(Box::new(c.clone()), 2_500_000) } else { Trigger::Never },
                        });
                    }
                    // "keeps serving other transactions meanwhile": a third entity on healthy links;
                    // half a second after the cut the sender (and, the other way round, the
                    // receiver) is asked for a transfer with it, which has to complete
                    let third = x.ents[0].clone();
                    x.ents.push(third);
                    for (pi, (s, d)) in [(0usize, 2usize), (2, 1)].into_iter().enumerate() {
                        x.puts.push(Put {
                            src: s,
                            dst: d,
                            unack: false,
                            src_name: format!("canary{}.bin", pi),
                            dst_name: format!("canary{}_out.bin", pi),
                            file: Some(FileSpec { size: 2 * x.ents[0].seg as u64 + 1, class: Content::Rand, cseed: 77 + pi as u64 }),
                            reqs: vec![],
                            msgs: vec![],
                            at: Trigger::Plus(Box::new(c.clone()), 500_000),
                        });
                    }
                    sweep.push(x);
                }
            }
        }
    }
    let sweep = std::sync::Arc::new(sweep);
    let sw = sweep.clone();
    let cut = Job {
        label: "cut-point sweep: blackout of either/both directions after every PDU, permanent and healing; two canary transfers with a third entity on healthy links half a second after the cut".into(),
        n: sweep.len(),
        gen: Box::new(move |i| sw[i].clone()),
    };
    let wild = Job {
        label: "unbounded random loss/dup/delay, blackouts, stalls and clock jumps".into(),
        n: n_wild,
        gen: Box::new(move |i| {
            let mut rng = Rng::new(mix(seed ^ 0xC03A, i as u64));
            let k = Knobs { envelope: rng.chance(1, 2), ..Knobs::default() };
            let mut sc = gen::pair_cfg(&mut rng, &k);
            gen::add_file_put(&mut sc, &mut rng, &k, 0, 1, 0);
            let prof = estimate_profile(&sc);
            sc.script = gen::wild_script(&mut rng, &sc, &prof, 0, 1);
            if rng.chance(1, 4) {
                sc.script.push(Entry::Blackout {
                    src: *rng.pick(&[0usize, 1]),
                    dst: 0,
                    from: Trigger::Never,
                    until: Trigger::Never,
                });
                // fix dst to the opposite of src
                if let Some(Entry::Blackout { src, dst, from, .. }) = sc.script.last_mut() {
                    *dst = 1 - *src;
                    *from = Trigger::AfterPdu { src: 0, dst: 1, n: rng.below(prof.fwd.len() as u64 + 2) as u32 };
                }
            }
            if rng.chance(1, 6) {
                sc.script.push(Entry::ClockJump { at: Trigger::At(rng.range(1, 3_000_000)), us: rng.range(1, 20_000_000) });
            }
            if rng.chance(1, 6) {
                sc.script.push(Entry::Stall { ent: rng.usize_below(2), at: Trigger::At(rng.range(0, 2_000_000)), us: rng.range(1000, 8_000_000) });
            }
            // storage faults: a failed open, no staging file, a full disk must not leave a
            // transaction waiting for ever either
            if rng.chance(1, 6) {
                add_storage_faults(&mut sc, &mut rng);
            }
            // user requests: a cancel, or a suspend followed by a cancel, must not leave anything
            // waiting for ever either (a suspension that is never lifted is exempt)
            if rng.chance(1, 3) {
                let ent = rng.usize_below(2);
                let at = Trigger::AfterPdu { src: 0, dst: 1, n: rng.below(prof.fwd.len() as u64 + 2) as u32 };
                match rng.below(4) {
                    0 => sc.script.push(Entry::User { ent, op: UserOp::Cancel, put: 0, at }),
                    1 => {
                        sc.script.push(Entry::User { ent, op: UserOp::Suspend, put: 0, at: at.clone() });
                        sc.script.push(Entry::User { ent, op: UserOp::Cancel, put: 0, at: Trigger::Plus(Box::new(at), *rng.pick(&[0u64, 1000, 2_000_000])) });
                    }
                    2 => {
                        sc.script.push(Entry::User { ent, op: UserOp::Suspend, put: 0, at: at.clone() });
                        sc.script.push(Entry::User { ent, op: UserOp::Resume, put: 0, at: Trigger::Plus(Box::new(at), *rng.pick(&[0u64, 1000, 2_000_000, 30_000_000])) });
                    }
                    _ => sc.script.push(Entry::User { ent, op: UserOp::Suspend, put: 0, at }),
                }
            }
            sc
        }),
    };
    // crash / restart of either entity at every point of the exchange
    let crash_cfgs = match tier {
        Tier::Quick => 10,
        Tier::Thorough => 150,
    };
    let mut crashes: Vec<Scenario> = vec![];
    for _ in 0..crash_cfgs {
        let k = Knobs { max_segments: 5, envelope: rng.chance(1, 2), ..Knobs::default() };
        let mut sc = gen::pair_cfg(&mut rng, &k);
        gen::add_file_put(&mut sc, &mut rng, &k, 0, 1, 0);
        let prof = gen::profile(&sc, &root, 0, 1);
        let t_max = sc.ents.iter().map(|e| e.t_ack.max(e.t_nak).max(e.t_inact).max(1) as u64 * e.limit.max(1) as u64).max().unwrap_or(10) * 1_000_000;
        let mut cuts: Vec<Trigger> = vec![Trigger::At(0)];
        for n in 0..prof.fwd.len() as u32 {
            cuts.push(Trigger::AfterPdu { src: 0, dst: 1, n });
        }
        for n in 0..prof.rev.len() as u32 {
            cuts.push(Trigger::AfterPdu { src: 1, dst: 0, n });
        }
        for ent in [0usize, 1] {
            for c in &cuts {
                for down in [Some(1_000u64), Some(700_000), Some(3_000_000), Some(2 * t_max), None] {
                    let mut x = sc.clone();
                    x.script.push(Entry::Crash { ent, at: c.clone() });
                    if let Some(d) = down {
                        x.script.push(Entry::Restart { ent, at: Trigger::Plus(Box::new(c.clone()), d) });
                    }
                    // a third entity on healthy links: served while the peer is gone
                    let third = x.ents[0].clone();
                    x.ents.push(third);
                    let other = 1 - ent;
                    let (cs, cd) = if other == 0 { (0usize, 2usize) } else { (2, 1) };
                    x.puts.push(Put {
                        src: cs,
                        dst: cd,
                        unack: false,
                        src_name: "canary0.bin".into(),
                        dst_name: "canary0_out.bin".into(),
                        file: Some(FileSpec { size: 2 * x.ents[0].seg as u64 + 1, class: Content::Rand, cseed: 77 }),
                        reqs: vec![],
                        msgs: vec![],
                        at: Trigger::Plus(Box::new(c.clone()), 500_000),
                    });
                    // once the entity is back: transfers in both directions with it are served
                    if let Some(d) = down {
                        for (pi, (s, dd)) in [(0usize, 1usize), (1, 0)].into_iter().enumerate() {
                            x.puts.push(Put {
                                src: s,
                                dst: dd,
                                unack: false,
                                src_name: format!("canarylate{}.bin", pi),
                                dst_name: format!("canarylate{}_out.bin", pi),
                                file: Some(FileSpec { size: 3 * x.ents[0].seg as u64 + 2, class: Content::Rand, cseed: 99 + pi as u64 }),
                                reqs: vec![],
                                msgs: vec![],
                                at: Trigger::Plus(Box::new(c.clone()), d + 4 * t_max + 5_000_000),
                            });
                        }
                    }
                    crashes.push(x);
                }
            }
        }
    }
    let crashes = std::sync::Arc::new(crashes);
    let cr = crashes.clone();
    let crash = Job {
        label: "crash-point sweep: the sender's or the receiver's daemon (with its transport and every transaction task) vanishes after every PDU of the exchange and is restarted on the surviving filestore after 1 ms / 0.7 s / 3 s / two full timer ladders / never; a canary transfer with a third entity meanwhile, two canary transfers with the restarted entity afterwards".into(),
        n: crashes.len(),
        gen: Box::new(move |i| cr[i].clone()),
    };
    vec![cut, wild, crash]
}

fn simple_put(sc: &mut Scenario, unack: bool, size: u64, class: Content, cseed: u64) {
    sc.puts.push(Put {
        src: 0,
        dst: 1,
        unack,
        src_name: "s.bin".into(),
        dst_name: "d.bin".into(),
        file: Some(FileSpec { size, class, cseed }),
        reqs: vec![],
        msgs: vec![],
        at: Trigger::At(0),
    });
}

fn c18_build(ctx: &Ctx, tier: Tier, seed: u64) -> Vec<Job<'static>> {
    let (grid_cfgs, pairs, n_wild) = match tier {
        Tier::Quick => (96, false, 80_000),
        Tier::Thorough => (240, true, 500_000),
    };
    let root = ctx.root(997);
    let mut rng = Rng::new(seed ^ 0xC185);
    let mut sweep: Vec<Scenario> = vec![];
    let mut ff: Vec<Scenario> = vec![];
    for ci in 0..grid_cfgs {
        let k = Knobs { unack: Some(true), closure: Some(ci % 2 == 0), max_segments: 4, ..Knobs::default() };
        let mut sc = gen::pair_cfg(&mut rng, &k);
        let seg = sc.ents[0].seg as u64;
        let sizes = [0, 1, seg, 3 * seg + 1];
        let classes = [Content::Rand, Content::ZeroRuns, Content::Zero, Content::Neutral];
        simple_put(&mut sc, true, sizes[(ci / 2) % 4], classes[(ci / 8) % 4].clone(), rng.next_u64());
        // "the true outcome" includes the filestore responses: every third Put carries a request
        if ci % 3 == 0 {
            sc.puts[0].reqs = vec![Req { action: 0, first: "made_by_request.txt".into(), second: String::new() }];
        }
        ff.push(sc.clone());
        let prof = gen::profile(&sc, &root, 0, 1);
        let sites = crate::sweep::sites(&prof, 0, 1, false);
        let acts = [Act::Drop, Act::Dup { n: 1, gap_us: sc.lat_us * 2 }, Act::Delay { us: sc.lat_us * 4 + 50 * (sc.ser_us + 1) }];
        sweep.extend(crate::sweep::placements(&sc, &sites, &acts, pairs, &|_| true));
    }
    let ff = std::sync::Arc::new(ff);
    let sw = std::sync::Arc::new(sweep);
    let (ff2, sw2) = (ff.clone(), sw.clone());
    let j0 = Job { label: "fault-free grid: closure x size x content (strict)".into(), n: ff.len(), gen: Box::new(move |i| ff2[i].clone()) };
    let j1 = Job {
        label: "every single (thorough: double) drop/dup/delay over the fault-free exchange, both directions".into(),
        n: sw.len(),
        gen: Box::new(move |i| sw2[i].clone()),
    };
    let j2 = Job {
        label: "seeded unbounded loss/dup/delay on larger files".into(),
        n: n_wild,
        gen: Box::new(move |i| {
            let mut rng = Rng::new(mix(seed ^ 0xC18A, i as u64));
            let k = Knobs { unack: Some(true), max_segments: 24, ..Knobs::default() };
            let mut sc = gen::pair_cfg(&mut rng, &k);
            gen::add_file_put(&mut sc, &mut rng, &k, 0, 1, 0);
            let prof = estimate_profile(&sc);
            sc.script = gen::wild_script(&mut rng, &sc, &prof, 0, 1);
            // user operations that must not make an unacknowledged receiver talk back
            if rng.chance(1, 4) {
                let ent = rng.usize_below(2);
                let at = Trigger::AfterPdu { src: 0, dst: 1, n: rng.below(prof.fwd.len() as u64 + 1) as u32 };
                sc.script.push(Entry::User { ent, op: UserOp::Suspend, put: 0, at: at.clone() });
                sc.script.push(Entry::User { ent, op: UserOp::Resume, put: 0, at: Trigger::Plus(Box::new(at), *rng.pick(&[0u64, 1000, 100_000, 1_500_000])) });
            }
            if rng.chance(1, 8) {
                sc.script.push(Entry::User { ent: 0, op: *rng.pick(&[UserOp::PromptNak, UserOp::PromptKa]), put: 0, at: Trigger::AfterPdu { src: 0, dst: 1, n: rng.below(prof.fwd.len() as u64 + 1) as u32 } });
            }
            sc
        }),
    };
    vec![j0, j1, j2]
}

pub fn registry(prop: &str) -> Option<Check> {
    let real = REAL_SIM.to_vec();
    let stub = STUB_SIM.to_vec();
    Some(match prop {
        "C01" => Check {
            prop: "C01",
            level: "exploration",
            rule: "one run = one (configuration, file, link-fault script) drawn from VERIF_SEED; a run is non-trivial when at least one fault fired or a user operation landed; distinct = distinct fingerprint of the sequence of (direction, PDU kind, offset, fate, user op, indication kind)",
            assumptions: vec![
                "source files are not modified during a transfer; destination names are unique per transaction",
                "corruption is injected only with CRC on, except single-bit flips in the data octets of a file-data PDU under the modular checksum (which always detects them)",
                "timeouts >= 1 s, limit >= 1, segment size >= 24",
            ],
            oracle: Box::new(oracle::c01),
            cross: Box::new(|a| oracle::c12_sentinel(a)),
            probes: Box::new(common_probes),
            build: c01_build,
            admissible: Box::new(domain_basic),
            real,
            stub,
        },
        "C02" => Check {
            prop: "C02",
            level: "fault_enumeration",
            rule: "systematic: every single (thorough: every pair of) placement of drop/dup/delay over every PDU index of both directions of the fault-free exchange plus the retransmitted instances, per grid configuration; seeded: admissible scripts (fewer than `limit` losses, delays <= min timeout/4) on files up to 64 segments; non-trivial = a fault fired; distinct = distinct history fingerprint",
            assumptions: vec![
                "envelope: losses per run < min(limit of both entities); extra delay <= min timeout / 4; inactivity timeout >= ack and nak timeouts of both entities; NAK delay <= 400 ms",
                "no blackout, crash, stall, clock jump, filestore fault or user cancel/suspend",
            ],
            oracle: Box::new(oracle::c02),
            cross: Box::new(safety_cross),
            probes: Box::new(common_probes),
            build: c02_build,
            admissible: Box::new(in_c02_envelope),
            real,
            stub,
        },
        "C03" => Check {
            prop: "C03",
            level: "fault_enumeration",
            rule: "cut-point sweep: for each grid configuration, blackout of A>B, B>A or both starting before the first PDU and after every PDU index of the fault-free exchange, permanent and healing after 2.5 s; crash-point sweep: either entity's daemon, transport and transaction tasks vanish after every PDU index and a fresh daemon is started on the surviving files after 1 ms / 0.7 s / 3 s / two timer ladders / never; plus seeded unbounded loss/dup/delay with stalls and clock jumps; non-trivial = a fault fired; distinct = distinct history fingerprint",
            assumptions: vec![
                "bound B(E) = 2*limit*(T_inact+T_ack+T_nak) + nak delay + 2 s + link time of what E is committed to send",
                "timeouts >= 1 s (0 s makes the counter loop forever by construction)",
                "transactions suspended by the user, or whose declared fault has handler Ignore/Suspend, are exempt",
                "a transaction that existed at an entity when that entity crashed is exempt at that entity (it died with the process); datagrams reaching a down entity are lost",
            ],
            oracle: Box::new(oracle::c03),
            cross: Box::new(safety_cross),
            probes: Box::new(common_probes),
            build: c03_build,
            admissible: Box::new(domain_basic),
            real,
            stub,
        },
        "C18" => Check {
            prop: "C18",
            level: "fault_enumeration",
            rule: "unacknowledged mode: grid closure x size {0,1,seg,3seg+1} x content {random, zero runs, all zero, checksum-neutral}; every single (thorough: every double) placement of drop/dup/delay over every PDU of both directions of the fault-free exchange; plus seeded unbounded faults on files up to 24 segments; non-trivial = a fault fired; distinct = distinct history fingerprint",
            assumptions: vec![
                "what the receiver held when EOF arrived is read off the FIFO delivery order (one transaction task processes its inbox in order)",
                "extra EOF retransmissions by a closure-waiting sender are not flagged; a sender ending after limit x min(ack, inactivity) timeout without Finished is accepted",
            ],
            oracle: Box::new(oracle::c18::c18),
            cross: Box::new(safety_cross),
            probes: Box::new(common_probes),
            build: c18_build,
            admissible: Box::new(domain_basic),
            real,
            stub,
        },
        "C04" => crate::props::c04::check(),
        "C07" => crate::props::c07::check(),
        "C08" => crate::props::c08::check(),
        "C10" => crate::props::c10::check(),
        "C11" => crate::props::c11::check(),
        "C12" => crate::props::c12::check(),
        "C13" => crate::props::c13::check(),
        "C17" => crate::props::c17::check(),
        "C19" => crate::props::c19::check(),
        "C20" => crate::props::c20::check(),
        _ => return None,
    })
}

pub const ALL_PROPS: [&str; 5] = ["C01", "C02", "C03", "C04", "C18"];

#[allow(dead_code)]
fn _unused() {
    let _ = no_cross;
}

/// a mixed bag of scenarios from every generator family, for the determinism self-test
pub fn selftest_scenario(seed: u64, i: usize) -> Scenario {
    // every scenario family takes part: pair (below), tx, rx, multi, hostile names, request lists
    match i % 10 {
        1 => return crate::props::c07::tx_scenario(seed, i),
        2 => return crate::props::c09::rx_history(seed, i),
        3 => return crate::props::c11::selftest(seed, i),
        4 => return crate::props::c13::selftest(seed, i),
        5 => return crate::props::c17::selftest(seed, i),
        6 => return crate::props::c12::selftest(seed, i),
        _ => {}
    }
    let mut rng = Rng::new(mix(seed ^ 0x5E1F, i as u64));
    let k = Knobs { envelope: rng.chance(1, 2), handlers: true, ..Knobs::default() };
    let mut sc = gen::pair_cfg(&mut rng, &k);
    gen::add_file_put(&mut sc, &mut rng, &k, 0, 1, 0);
    if rng.chance(1, 3) {
        gen::add_file_put(&mut sc, &mut rng, &k, 1, 0, 1);
    }
    let prof = estimate_profile(&sc);
    sc.script = gen::wild_script(&mut rng, &sc, &prof, 0, 1);
    if rng.chance(1, 2) {
        let op = *rng.pick(&[UserOp::Cancel, UserOp::Suspend, UserOp::PromptNak, UserOp::PromptKa, UserOp::Report]);
        let ent = rng.usize_below(2);
        let n = rng.below(prof.fwd.len() as u64 + 1) as u32;
        sc.script.push(Entry::User { ent, op, put: 0, at: Trigger::AfterPdu { src: 0, dst: 1, n } });
        if op == UserOp::Suspend {
            sc.script.push(Entry::User { ent, op: UserOp::Resume, put: 0, at: Trigger::Plus(Box::new(Trigger::AfterPdu { src: 0, dst: 1, n }), rng.range(0, 9_000_000)) });
        }
    }
    if rng.chance(1, 5) {
        sc.script.push(Entry::ClockJump { at: Trigger::At(rng.range(1, 3_000_000)), us: rng.range(1, 9_000_000) });
    }
    if rng.chance(1, 5) {
        sc.script.push(Entry::Stall { ent: rng.usize_below(2), at: Trigger::At(rng.range(0, 2_000_000)), us: rng.range(1000, 5_000_000) });
    }
    if rng.chance(1, 5) {
        sc.script.push(Entry::Inject { src: 0, dst: 1, what: What::Copy { src: 0, dst: 1, n: rng.below(4) as u32 }, at: Trigger::AfterKind { src: 1, dst: 0, kind: Kind::Fin, k: 0 }, delay_us: rng.range(0, 3_000_000) });
    }
    if i % 10 == 7 {
        // crash / restart of an entity in mid-exchange
        let ent = rng.usize_below(2);
        let at = Trigger::AfterPdu { src: 0, dst: 1, n: rng.below(prof.fwd.len() as u64 + 1) as u32 };
        sc.script.push(Entry::Crash { ent, at: at.clone() });
        if rng.chance(3, 4) {
            sc.script.push(Entry::Restart { ent, at: Trigger::Plus(Box::new(at), *rng.pick(&[1000u64, 700_000, 3_000_000, 30_000_000])) });
        }
    }
    sc
}
