//! Batch execution of scenarios on a pool of OS threads (one simulated world per run, one run at
//! a time per thread), collection of coverage statistics and violations.

use std::{
    collections::{BTreeMap, HashSet},
    sync::{
        atomic::{AtomicBool, AtomicU64, AtomicUsize, Ordering},
        Arc, Mutex,
    },
    time::{Duration, Instant},
};

use camino::Utf8PathBuf;

use crate::{
    analysis::{fingerprint, Analysis, Violation},
    scenario::Scenario,
    world::{self, FaultCounts, RunOpts, RunRecord},
};

pub type Oracle = dyn Fn(&Analysis) -> Vec<Violation> + Sync;
pub type ProbeFn = dyn Fn(&Analysis, &mut Vec<&'static str>) + Sync;

pub struct Job<'a> {
    pub label: String,
    pub n: usize,
    pub gen: Box<dyn Fn(usize) -> Scenario + Sync + 'a>,
}

#[derive(Clone, Debug)]
pub struct Found {
    pub v: Violation,
    pub sc: Scenario,
    pub job: String,
    pub index: usize,
}

#[derive(Default)]
pub struct Stats {
    pub runs: u64,
    pub nontrivial_runs: u64,
    pub fingerprints: HashSet<u64>,
    pub all_fingerprints: HashSet<u64>,
    pub counts: FaultCounts,
    pub sim_us: u64,
    pub events: u64,
    pub probes: BTreeMap<&'static str, u64>,
    pub outcomes: BTreeMap<String, u64>,
    pub shortest: Option<(usize, String)>,
    pub longest: Option<(usize, String)>,
    pub first: Option<String>,
    pub harness_errors: Vec<String>,
    pub panics: Vec<(String, String)>,
    pub cross: BTreeMap<String, (u64, String)>,
    pub per_job: Vec<(String, u64)>,
    pub deadline_hit: bool,
}

impl Stats {
    pub fn merge(&mut self, o: Stats) {
        self.runs += o.runs;
        self.nontrivial_runs += o.nontrivial_runs;
        self.fingerprints.extend(o.fingerprints);
        self.all_fingerprints.extend(o.all_fingerprints);
        self.counts.add(&o.counts);
        self.sim_us += o.sim_us;
        self.events += o.events;
        for (k, v) in o.probes {
            *self.probes.entry(k).or_insert(0) += v;
        }
        for (k, v) in o.outcomes {
            *self.outcomes.entry(k).or_insert(0) += v;
        }
        for (k, (n, s)) in o.cross {
            let e = self.cross.entry(k).or_insert((0, s));
            e.0 += n;
        }
        match (&self.shortest, o.shortest) {
            (None, s) => self.shortest = s,
            (Some(a), Some(b)) if b.0 < a.0 => self.shortest = Some(b),
            _ => {}
        }
        match (&self.longest, o.longest) {
            (None, s) => self.longest = s,
            (Some(a), Some(b)) if b.0 > a.0 => self.longest = Some(b),
            _ => {}
        }
        if self.first.is_none() {
            self.first = o.first;
        }
        self.harness_errors.extend(o.harness_errors);
        self.panics.extend(o.panics);
        self.deadline_hit |= o.deadline_hit;
        self.per_job.extend(o.per_job);
    }
}

pub struct Ctx {
    pub workers: usize,
    pub base: Utf8PathBuf,
    pub deadline: Option<Instant>,
    pub opts: RunOpts,
    pub max_found: usize,
}

impl Ctx {
    pub fn new(workers: usize) -> Ctx {
        let base = Utf8PathBuf::from(format!("/dev/shm/cfdp-verif/{}", std::process::id()));
        std::fs::create_dir_all(&base).expect("cannot create scratch dir on /dev/shm");
        let tmp = base.join("tmp");
        std::fs::create_dir_all(&tmp).unwrap();
        // staging files of the receiver (tempfile()) stay on tmpfs too
        std::env::set_var("TMPDIR", tmp.as_str());
        Ctx { workers, base, deadline: None, opts: RunOpts::default(), max_found: 200 }
    }
    pub fn cleanup(&self) {
        let _ = std::fs::remove_dir_all(&self.base);
    }
    pub fn root(&self, worker: usize) -> Utf8PathBuf {
        self.base.join(format!("w{}", worker))
    }
}

/// watchdog: wall-clock guard per run; a run exceeding it is a spin that does not touch a seam
pub struct Watchdog {
    pub slots: Vec<AtomicU64>,
    pub texts: Vec<Mutex<Option<String>>>,
    pub stop: AtomicBool,
}

static START: std::sync::OnceLock<Instant> = std::sync::OnceLock::new();
fn now_ms() -> u64 {
    START.get_or_init(Instant::now).elapsed().as_millis() as u64 + 1
}

/// last resort for a loop inside one poll (never seen so far); longer than the in-run guard with
/// its confirmation (10 s + 30 s)
pub const WATCHDOG_MS: u64 = 60_000;

/// watchdog trips that a fresh process could not confirm (stalls of the machine, not of the code)
pub static FALSE_TRIPS: AtomicU64 = AtomicU64::new(0);

/// re-run a scenario in a child process; true iff it does not finish within the watchdog time there
fn confirm_hang(text: &str) -> bool {
    let path = format!("/dev/shm/cfdp-verif-confirm-{}-{}.replay", std::process::id(), now_ms());
    if std::fs::write(&path, text).is_err() {
        return true;
    }
    let exe = match std::env::current_exe() {
        Ok(e) => e,
        Err(_) => return true,
    };
    let child = std::process::Command::new(exe).arg("runonly").arg(&path).stdout(std::process::Stdio::null()).stderr(std::process::Stdio::null()).spawn();
    let mut child = match child {
        Ok(c) => c,
        Err(_) => return true,
    };
    let t0 = Instant::now();
    let mut hung = true;
    while t0.elapsed() < Duration::from_millis(WATCHDOG_MS + 5_000) {
        match child.try_wait() {
            Ok(Some(_)) => {
                hung = false;
                break;
            }
            Ok(None) => std::thread::sleep(Duration::from_millis(50)),
            Err(_) => break,
        }
    }
    if hung {
        let _ = child.kill();
        let _ = child.wait();
    }
    let _ = std::fs::remove_file(&path);
    hung
}

/// debugging aid: VERIF_HUNT=<substring of an outcome tuple> dumps up to five matching scenarios
fn hunt() -> Option<&'static String> {
    static H: std::sync::OnceLock<Option<String>> = std::sync::OnceLock::new();
    H.get_or_init(|| std::env::var("VERIF_HUNT").ok()).as_ref()
}

/// what to do when a run hangs: (scenario text) -> !
pub type HangHandler = dyn Fn(&str) + Sync + Send;

pub fn run_job(
    ctx: &Ctx,
    job: &Job,
    oracle: &Oracle,
    cross: &Oracle,
    probes: &ProbeFn,
    on_hang: Arc<HangHandler>,
) -> (Stats, Vec<Found>) {
    let next = AtomicUsize::new(0);
    let found: Mutex<Vec<Found>> = Mutex::new(vec![]);
    let total: Mutex<Stats> = Mutex::new(Stats::default());
    let wd = Arc::new(Watchdog {
        slots: (0..ctx.workers).map(|_| AtomicU64::new(0)).collect(),
        texts: (0..ctx.workers).map(|_| Mutex::new(None)).collect(),
        stop: AtomicBool::new(false),
    });
    let wd2 = wd.clone();
    let hang = on_hang.clone();
    let wd_thread = std::thread::spawn(move || {
        let mut last = now_ms();
        while !wd2.stop.load(Ordering::Relaxed) {
            std::thread::sleep(Duration::from_millis(200));
            let now = now_ms();
            // the whole process (or the whole VM: snapshots, oversubscription) may have been stalled:
            // if this thread's own 200 ms nap took much longer, the overshoot is credited to every
            // worker - only a worker that spins while the rest of the process runs normally trips
            let overshoot = now.saturating_sub(last + 200);
            last = now;
            if overshoot > 500 {
                for s in wd2.slots.iter() {
                    let st = s.load(Ordering::Relaxed);
                    if st != 0 {
                        s.store(st + overshoot, Ordering::Relaxed);
                    }
                }
                continue;
            }
            for (i, s) in wd2.slots.iter().enumerate() {
                let st = s.load(Ordering::Relaxed);
                if st != 0 && now > st + WATCHDOG_MS {
                    let text = wd2.texts[i].lock().unwrap().clone().unwrap_or_default();
                    // confirm in a fresh process before anything is reported: the scenario is
                    // deterministic, a genuine spin hangs there too
                    if confirm_hang(&text) {
                        hang(&text);
                    } else {
                        FALSE_TRIPS.fetch_add(1, Ordering::Relaxed);
                        s.store(now_ms(), Ordering::Relaxed);
                    }
                }
            }
        }
    });

    std::thread::scope(|scope| {
        for w in 0..ctx.workers {
            let next = &next;
            let found = &found;
            let total = &total;
            let wd = wd.clone();
            let root = ctx.root(w);
            scope.spawn(move || {
                world::install_panic_hook();
                let mut st = Stats::default();
                loop {
                    let i = next.fetch_add(1, Ordering::Relaxed);
                    if i >= job.n {
                        break;
                    }
                    if let Some(d) = ctx.deadline {
                        if Instant::now() > d {
                            st.deadline_hit = true;
                            break;
                        }
                    }
                    let sc = (job.gen)(i);
                    *wd.texts[w].lock().unwrap() = Some(sc.to_text());
                    wd.slots[w].store(now_ms(), Ordering::Relaxed);
                    let rec = world::run(&sc, &root, &ctx.opts);
                    wd.slots[w].store(0, Ordering::Relaxed);
                    account(&mut st, &sc, &rec, oracle, cross, probes, found, &job.label, i, ctx.max_found);
                }
                total.lock().unwrap().merge(st);
            });
        }
    });
    wd.stop.store(true, Ordering::Relaxed);
    let _ = wd_thread.join();
    let mut st = total.into_inner().unwrap();
    st.per_job.push((job.label.clone(), st.runs));
    let mut f = found.into_inner().unwrap();
    f.sort_by_key(|x| x.index);
    (st, f)
}

#[allow(clippy::too_many_arguments)]
fn account(
    st: &mut Stats,
    sc: &Scenario,
    rec: &RunRecord,
    oracle: &Oracle,
    cross: &Oracle,
    probes: &ProbeFn,
    found: &Mutex<Vec<Found>>,
    label: &str,
    index: usize,
    max_found: usize,
) {
    st.runs += 1;
    st.sim_us += rec.end_vt;
    st.events += rec.events.len() as u64;
    st.counts.add(&rec.counts);
    let (fp, nontrivial) = fingerprint(rec);
    st.all_fingerprints.insert(fp);
    if nontrivial {
        st.nontrivial_runs += 1;
        st.fingerprints.insert(fp);
    }
    let a = Analysis::new(rec);
    let mut ps = vec![];
    probes(&a, &mut ps);
    for p in ps {
        *st.probes.entry(p).or_insert(0) += 1;
    }
    // outcome tuple per put
    for (pi, _) in sc.puts.iter().enumerate() {
        if let Some(t) = a.put_txn(pi) {
            let r = t.at_dst.first_finished().map(|(_, f)| format!("{:?}/{:?}/{:?}", f.report.condition, f.delivery_code, f.file_status)).unwrap_or_else(|| "-".into());
            let s = t.at_src.first_finished().map(|(_, f)| format!("{:?}/{:?}/{:?}", f.report.condition, f.delivery_code, f.file_status)).unwrap_or_else(|| "-".into());
            let key = format!("recv={} send={}", r, s);
            if let Some(h) = hunt() {
                if key.contains(h.as_str()) {
                    static N: AtomicUsize = AtomicUsize::new(0);
                    let k = N.fetch_add(1, Ordering::Relaxed);
                    if k < 5 {
                        let _ = std::fs::write(format!("/dev/shm/hunt-{}.replay", k), sc.to_text());
                        eprintln!("HUNT: {} -> /dev/shm/hunt-{}.replay", key, k);
                    }
                }
            }
            *st.outcomes.entry(key).or_insert(0) += 1;
        }
    }
    let text_len = sc.script.len();
    if st.first.is_none() {
        st.first = Some(sc.to_text());
    }
    if st.shortest.as_ref().map(|s| text_len < s.0).unwrap_or(true) {
        st.shortest = Some((text_len, sc.to_text()));
    }
    if st.longest.as_ref().map(|s| text_len > s.0).unwrap_or(true) {
        st.longest = Some((text_len, sc.to_text()));
    }
    for p in &rec.panics {
        if st.panics.len() < 20 {
            st.panics.push((p.clone(), sc.to_text()));
        }
    }
    for h in crate::oracle::harness_checks(&a) {
        if st.harness_errors.len() < 20 {
            st.harness_errors.push(format!("{} [{} #{}]", h, label, index));
        }
    }
    let vs = oracle(&a);
    if !vs.is_empty() {
        let mut f = found.lock().unwrap();
        for v in vs {
            if f.len() < max_found {
                f.push(Found { v, sc: sc.clone(), job: label.to_string(), index });
            }
        }
    }
    for v in cross(&a) {
        let k = format!("{}/{}", v.prop, v.clause);
        let e = st.cross.entry(k).or_insert((0, v.detail.clone()));
        e.0 += 1;
    }
}

/// run one scenario in the current thread (replay)
pub fn run_one(ctx: &Ctx, sc: &Scenario) -> RunRecord {
    world::install_panic_hook();
    world::run(sc, &ctx.root(999), &ctx.opts)
}
