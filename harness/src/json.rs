//! Minimal JSON value + writer (evidence files).

use std::fmt::Write;

#[derive(Clone, Debug)]
pub enum J {
    Null,
    Bool(bool),
    Int(i64),
    Num(f64),
    Str(String),
    Arr(Vec<J>),
    Obj(Vec<(String, J)>),
}

impl J {
    pub fn obj() -> J {
        J::Obj(Vec::new())
    }
    pub fn set(&mut self, k: &str, v: J) -> &mut Self {
        if let J::Obj(items) = self {
            if let Some(slot) = items.iter_mut().find(|(kk, _)| kk == k) {
                slot.1 = v;
            } else {
                items.push((k.to_string(), v));
            }
        }
        self
    }
    pub fn s(v: impl Into<String>) -> J {
        J::Str(v.into())
    }
    pub fn i(v: impl TryInto<i64>) -> J {
        J::Int(v.try_into().unwrap_or(i64::MAX))
    }
    pub fn strs<I: IntoIterator<Item = S>, S: Into<String>>(it: I) -> J {
        J::Arr(it.into_iter().map(|s| J::Str(s.into())).collect())
    }
    pub fn render(&self) -> String {
        let mut out = String::new();
        self.write(&mut out, 0);
        out.push('\n');
        out
    }
    fn write(&self, out: &mut String, ind: usize) {
        match self {
            J::Null => out.push_str("null"),
            J::Bool(b) => out.push_str(if *b { "true" } else { "false" }),
            J::Int(i) => {
                let _ = write!(out, "{}", i);
            }
            J::Num(f) => {
                if f.is_finite() {
                    let _ = write!(out, "{:.3}", f);
                } else {
                    out.push_str("0");
                }
            }
            J::Str(s) => esc(s, out),
            J::Arr(items) => {
                if items.is_empty() {
                    out.push_str("[]");
                    return;
                }
                out.push_str("[\n");
                for (i, it) in items.iter().enumerate() {
                    pad(out, ind + 1);
                    it.write(out, ind + 1);
                    if i + 1 < items.len() {
                        out.push(',');
                    }
                    out.push('\n');
                }
                pad(out, ind);
                out.push(']');
            }
            J::Obj(items) => {
                if items.is_empty() {
                    out.push_str("{}");
                    return;
                }
                out.push_str("{\n");
                for (i, (k, v)) in items.iter().enumerate() {
                    pad(out, ind + 1);
                    esc(k, out);
                    out.push_str(": ");
                    v.write(out, ind + 1);
                    if i + 1 < items.len() {
                        out.push(',');
                    }
                    out.push('\n');
                }
                pad(out, ind);
                out.push('}');
            }
        }
    }
}

fn pad(out: &mut String, n: usize) {
    for _ in 0..n {
        out.push(' ');
    }
}

fn esc(s: &str, out: &mut String) {
    out.push('"');
    for c in s.chars() {
        match c {
            '"' => out.push_str("\\\""),
            '\\' => out.push_str("\\\\"),
            '\n' => out.push_str("\\n"),
            '\r' => out.push_str("\\r"),
            '\t' => out.push_str("\\t"),
            c if (c as u32) < 0x20 => {
                let _ = write!(out, "\\u{:04x}", c as u32);
            }
            c => out.push(c),
        }
    }
    out.push('"');
}
