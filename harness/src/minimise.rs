//! Shrink a failing scenario while the same violation class (property + clause) persists.

use crate::{
    analysis::Analysis,
    runner::{Ctx, Oracle},
    scenario::*,
    world,
};

pub struct Target<'a> {
    pub prop: &'a str,
    pub clause: &'a str,
}

pub struct Minimiser<'a> {
    /// candidates outside the property's scenario domain are never tried
    pub admissible: &'a (dyn Fn(&Scenario) -> bool + Sync),
    pub ctx: &'a Ctx,
    pub oracle: &'a Oracle,
    pub target: Target<'a>,
    pub budget: usize,
    pub used: usize,
}

impl<'a> Minimiser<'a> {
    pub fn fails(&mut self, sc: &Scenario) -> bool {
        if self.used >= self.budget || !(self.admissible)(sc) {
            return false;
        }
        self.used += 1;
        let rec = world::run(sc, &self.ctx.root(998), &self.ctx.opts);
        let a = Analysis::new(&rec);
        (self.oracle)(&a)
            .iter()
            .any(|v| v.prop == self.target.prop && v.clause == self.target.clause)
    }

    pub fn run(&mut self, start: &Scenario) -> Scenario {
        let mut cur = start.clone();
        if !self.fails(&cur) {
            return cur;
        }
        loop {
            let before = cur.clone();
            cur = self.dd_script(cur);
            cur = self.simplify_entries(cur);
            cur = self.shrink_workload(cur);
            cur = self.normalise_config(cur);
            if cur == before || self.used >= self.budget {
                break;
            }
        }
        cur
    }

    fn dd_script(&mut self, mut cur: Scenario) -> Scenario {
        let mut chunk = cur.script.len().max(1) / 2;
        while chunk >= 1 {
            let mut i = 0;
            let mut progressed = false;
            while i < cur.script.len() {
                let mut cand = cur.clone();
                let end = (i + chunk).min(cand.script.len());
                cand.script.drain(i..end);
                if self.fails(&cand) {
                    cur = cand;
                    progressed = true;
                } else {
                    i += chunk;
                }
            }
            if chunk == 1 && !progressed {
                break;
            }
            chunk = if chunk == 1 { if progressed { 1 } else { 0 } } else { chunk / 2 };
            if chunk == 0 {
                break;
            }
        }
        cur
    }

    fn simplify_entries(&mut self, mut cur: Scenario) -> Scenario {
        for i in 0..cur.script.len() {
            let cands: Vec<Entry> = match &cur.script[i] {
                Entry::Fault { src, dst, sel, act } => {
                    let mut c = vec![];
                    match act {
                        Act::Dup { n, gap_us } => {
                            if *n > 1 {
                                c.push(Act::Dup { n: 1, gap_us: *gap_us });
                            }
                            if *gap_us > 0 {
                                c.push(Act::Dup { n: *n, gap_us: 0 });
                            }
                        }
                        Act::Delay { us } if *us > 1 => {
                            c.push(Act::Delay { us: us / 2 });
                        }
                        Act::Flip { .. } | Act::Trunc { .. } => c.push(Act::Drop),
                        _ => {}
                    }
                    c.into_iter()
                        .map(|a| Entry::Fault { src: *src, dst: *dst, sel: sel.clone(), act: a })
                        .collect()
                }
                Entry::Inject { src, dst, what, at, delay_us } if *delay_us > 0 => vec![Entry::Inject {
                    src: *src,
                    dst: *dst,
                    what: what.clone(),
                    at: at.clone(),
                    delay_us: 0,
                }],
                Entry::Blackout { src, dst, from, until } if *until != Trigger::Never => {
                    vec![Entry::Blackout { src: *src, dst: *dst, from: from.clone(), until: Trigger::Never }]
                }
                _ => vec![],
            };
            for c in cands {
                let mut cand = cur.clone();
                cand.script[i] = c;
                if self.fails(&cand) {
                    cur = cand;
                    break;
                }
            }
        }
        cur
    }

    fn shrink_workload(&mut self, mut cur: Scenario) -> Scenario {
        // drop trailing puts nobody refers to
        while cur.puts.len() > 1 {
            let last = cur.puts.len() - 1;
            let referenced = cur.script.iter().any(|e| matches!(e, Entry::User { put, .. } if *put == last));
            // (indices >= RAW_TXN address scripted transactions and are never shifted)
            if referenced {
                break;
            }
            let mut cand = cur.clone();
            cand.puts.pop();
            if self.fails(&cand) {
                cur = cand;
            } else {
                break;
            }
        }
        for pi in 0..cur.puts.len() {
            let seg = cur.ents[cur.puts[pi].src].seg as u64;
            if let Some(f) = cur.puts[pi].file.clone() {
                let mut sizes = vec![0, 1, seg - 1, seg, seg + 1, 2 * seg, 2 * seg + 1, 3 * seg, 3 * seg + 1, 4 * seg];
                sizes.retain(|s| *s < f.size);
                for s in sizes {
                    let mut cand = cur.clone();
                    cand.puts[pi].file.as_mut().unwrap().size = s;
                    if self.fails(&cand) {
                        cur = cand;
                        break;
                    }
                }
                for class in [Content::Counter, Content::Zero] {
                    if cur.puts[pi].file.as_ref().unwrap().class == class {
                        break;
                    }
                    let mut cand = cur.clone();
                    cand.puts[pi].file.as_mut().unwrap().class = class;
                    if self.fails(&cand) {
                        cur = cand;
                        break;
                    }
                }
            }
            if !cur.puts[pi].reqs.is_empty() {
                let mut j = 0;
                while j < cur.puts[pi].reqs.len() {
                    let mut cand = cur.clone();
                    cand.puts[pi].reqs.remove(j);
                    if self.fails(&cand) {
                        cur = cand;
                    } else {
                        j += 1;
                    }
                }
            }
        }
        // pre-existing files
        let mut j = 0;
        while j < cur.pre.len() {
            let mut cand = cur.clone();
            cand.pre.remove(j);
            if self.fails(&cand) {
                cur = cand;
            } else {
                j += 1;
            }
        }
        cur
    }

    fn normalise_config(&mut self, mut cur: Scenario) -> Scenario {
        // raw injected datagrams were encoded for this id width / CRC setting / sequence numbers
        let has_raw = cur.script.iter().any(|e| matches!(e, Entry::Inject { what: What::Raw(_), .. }));
        let mut tries: Vec<Box<dyn Fn(&mut Scenario)>> = vec![
            Box::new(move |s| if !has_raw { s.ents.iter_mut().for_each(|e| e.crc = false) }),
            Box::new(|s| s.ents.iter_mut().for_each(|e| e.nak_delay_ms = 0)),
            Box::new(|s| s.ents.iter_mut().for_each(|e| e.nak_immediate = false)),
            Box::new(|s| s.lat_us = 1000),
            Box::new(|s| {
                s.ser_us = 0;
                s.ser_ns_byte = 0
            }),
            Box::new(|s| s.ents.iter_mut().for_each(|e| e.t_ack = 1)),
            Box::new(|s| s.ents.iter_mut().for_each(|e| e.t_nak = 2)),
            Box::new(|s| s.ents.iter_mut().for_each(|e| e.t_inact = 3)),
            Box::new(|s| s.ents.iter_mut().for_each(|e| e.limit = 2)),
            Box::new(move |s| if !has_raw { s.idw = 2 }),
            Box::new(move |s| if !has_raw { s.ents.iter_mut().for_each(|e| e.seq0 = 0) }),
            Box::new(|s| s.ents.iter_mut().for_each(|e| e.null_cksum = false)),
            Box::new(|s| s.ents.iter_mut().for_each(|e| e.handlers.clear())),
            Box::new(|s| s.rt_seed = 1),
            Box::new(|s| s.ents.iter_mut().for_each(|e| e.closure = false)),
        ];
        for t in tries.drain(..) {
            let mut cand = cur.clone();
            t(&mut cand);
            if cand != cur && self.fails(&cand) {
                cur = cand;
            }
        }
        cur
    }
}
