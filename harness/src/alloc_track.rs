//! Counting global allocator: per-thread tracking window used by the C06 check to bound what a
//! single decode call may allocate. Outside a window it only forwards to the system allocator.

use std::alloc::{GlobalAlloc, Layout, System};
use std::cell::Cell;

pub struct Tracking;

thread_local! {
    static ON: Cell<bool> = const { Cell::new(false) };
    static MAX_REQ: Cell<usize> = const { Cell::new(0) };
    static LIVE: Cell<isize> = const { Cell::new(0) };
    static PEAK: Cell<isize> = const { Cell::new(0) };
}

unsafe impl GlobalAlloc for Tracking {
    unsafe fn alloc(&self, l: Layout) -> *mut u8 {
        note_alloc(l.size());
        System.alloc(l)
    }
    unsafe fn dealloc(&self, p: *mut u8, l: Layout) {
        note_free(l.size());
        System.dealloc(p, l)
    }
    unsafe fn alloc_zeroed(&self, l: Layout) -> *mut u8 {
        note_alloc(l.size());
        System.alloc_zeroed(l)
    }
    unsafe fn realloc(&self, p: *mut u8, l: Layout, new: usize) -> *mut u8 {
        note_free(l.size());
        note_alloc(new);
        System.realloc(p, l, new)
    }
}

fn note_alloc(n: usize) {
    let _ = ON.try_with(|on| {
        if on.get() {
            MAX_REQ.with(|m| m.set(m.get().max(n)));
            LIVE.with(|l| {
                l.set(l.get() + n as isize);
                PEAK.with(|p| p.set(p.get().max(l.get())));
            });
        }
    });
}
fn note_free(n: usize) {
    let _ = ON.try_with(|on| {
        if on.get() {
            LIVE.with(|l| l.set(l.get() - n as isize));
        }
    });
}

/// run f with tracking on; returns (result, largest single request, peak of live bytes allocated
/// inside the window)
pub fn tracked<R>(f: impl FnOnce() -> R) -> (R, usize, usize) {
    MAX_REQ.with(|m| m.set(0));
    LIVE.with(|l| l.set(0));
    PEAK.with(|p| p.set(0));
    ON.with(|o| o.set(true));
    let r = f();
    ON.with(|o| o.set(false));
    (r, MAX_REQ.with(|m| m.get()), PEAK.with(|p| p.get()).max(0) as usize)
}

/// true iff the tracking allocator is installed in this process (self-check)
pub fn installed() -> bool {
    let (_, max, _) = tracked(|| {
        let v: Vec<u8> = Vec::with_capacity(12345);
        std::hint::black_box(&v);
    });
    max >= 12345
}
