//! FileStore seam: a wrapper around the real NativeFileStore that records every call that can
//! change or expose filestore state, and injects open-level faults.

use std::{
    fs::{File, OpenOptions},
    sync::{Arc, Weak},
};

use camino::{Utf8Path, Utf8PathBuf};
use cfdp_core::{
    filestore::{FileStore, FileStoreError, FileStoreResult, NativeFileStore},
    pdu::{FileStoreRequest, FileStoreResponse},
};

use crate::world::{FsOp, World};

pub struct SimFs {
    pub inner: NativeFileStore,
    pub world: Weak<World>,
    pub ent: usize,
}

impl SimFs {
    pub fn new(root: &Utf8Path, world: &Arc<World>, ent: usize) -> Self {
        SimFs { inner: NativeFileStore::new(root), world: Arc::downgrade(world), ent }
    }
    fn log(&self, op: FsOp) {
        if let Some(w) = self.world.upgrade() {
            w.fs_event(self.ent, op);
        }
    }
    fn fault(&self, op: &str) -> bool {
        match self.world.upgrade() {
            Some(w) => w.fs_fault(self.ent, op),
            None => false,
        }
    }
}

fn injected() -> FileStoreError {
    FileStoreError::IO(std::io::Error::new(std::io::ErrorKind::Other, "injected filestore fault"))
}

impl FileStore for SimFs {
    fn get_native_path<P: AsRef<Utf8Path>>(&self, path: P) -> Utf8PathBuf {
        self.inner.get_native_path(path)
    }
    fn create_file<P: AsRef<Utf8Path>>(&self, path: P) -> FileStoreResult<()> {
        self.inner.create_file(path)
    }
    fn delete_file<P: AsRef<Utf8Path>>(&self, path: P) -> FileStoreResult<()> {
        self.inner.delete_file(path)
    }
    fn rename_file<P: AsRef<Utf8Path>, U: AsRef<Utf8Path>>(
        &self,
        from: P,
        to: U,
    ) -> FileStoreResult<()> {
        self.inner.rename_file(from, to)
    }
    fn append_file<P: AsRef<Utf8Path>, U: AsRef<Utf8Path>>(
        &self,
        path1: P,
        path2: U,
    ) -> FileStoreResult<()> {
        self.inner.append_file(path1, path2)
    }
    fn replace_file<P: AsRef<Utf8Path>, U: AsRef<Utf8Path>>(
        &self,
        path1: P,
        path2: U,
    ) -> FileStoreResult<()> {
        self.inner.replace_file(path1, path2)
    }
    fn create_directory<P: AsRef<Utf8Path>>(&self, path: P) -> FileStoreResult<()> {
        self.inner.create_directory(path)
    }
    fn remove_directory<P: AsRef<Utf8Path>>(&self, path: P) -> FileStoreResult<()> {
        self.inner.remove_directory(path)
    }
    fn list_directory<P: AsRef<Utf8Path>>(&self, path: P) -> FileStoreResult<String> {
        self.inner.list_directory(path)
    }
    fn open<P: AsRef<Utf8Path>>(
        &self,
        path: P,
        options: &mut OpenOptions,
    ) -> FileStoreResult<File> {
        let p = path.as_ref().to_owned();
        if self.fault("open") {
            self.log(FsOp::Open { path: p.to_string(), ok: false, injected: true });
            return Err(injected());
        }
        let r = self.inner.open(&p, options);
        self.log(FsOp::Open { path: p.to_string(), ok: r.is_ok(), injected: false });
        r
    }
    fn open_tempfile(&self) -> FileStoreResult<File> {
        if self.fault("tempfile") {
            self.log(FsOp::Tempfile { ok: false, full: false });
            return Err(injected());
        }
        if self.fault("full") {
            self.log(FsOp::Tempfile { ok: true, full: true });
            return File::options()
                .read(true)
                .write(true)
                .open("/dev/full")
                .map_err(FileStoreError::IO);
        }
        let r = self.inner.open_tempfile();
        self.log(FsOp::Tempfile { ok: r.is_ok(), full: false });
        r
    }
    fn get_size<P: AsRef<Utf8Path>>(&self, path: P) -> FileStoreResult<u64> {
        self.inner.get_size(path)
    }
    fn process_request(&self, request: &FileStoreRequest) -> FileStoreResponse {
        let resp = self.inner.process_request(request);
        self.log(FsOp::Request { req: request.clone(), resp: resp.clone() });
        resp
    }
}
