//! Checks whose deciding runs are not two-daemon simulations (wire / io / udp seams), and the
//! common result type they hand to the command line.

use crate::checks::Tier;
use crate::json::J;

#[derive(Clone, Debug)]
pub struct CViol {
    pub clause: String,
    /// stable class of the violation (known-findings are matched on it)
    pub signature: String,
    pub detail: String,
    /// replay file content
    pub replay: String,
}

#[derive(Default)]
pub struct COut {
    pub evaluations: u64,
    pub distinct_nontrivial: u64,
    pub samples: Vec<String>,
    pub extra: Vec<(String, J)>,
    pub violations: Vec<CViol>,
    pub harness_errors: Vec<String>,
    pub exhaustive: bool,
    pub exhaustive_note: String,
    /// hashes of the distinct non-trivial cases (merged globally; overrides distinct_nontrivial)
    pub distinct: std::collections::HashSet<u64>,
}

impl COut {
    pub fn note_distinct<T: std::hash::Hash>(&mut self, t: &T) {
        use std::hash::Hasher;
        // FNV-style, independent of std's randomised hasher
        struct F(u64);
        impl Hasher for F {
            fn finish(&self) -> u64 {
                self.0
            }
            fn write(&mut self, b: &[u8]) {
                for x in b {
                    self.0 ^= *x as u64;
                    self.0 = self.0.wrapping_mul(0x100_0000_01b3);
                }
            }
        }
        let mut h = F(0xcbf2_9ce4_8422_2325);
        t.hash(&mut h);
        self.distinct.insert(h.finish());
    }
    pub fn viol(&mut self, v: CViol) {
        if self.violations.len() < 400 {
            self.violations.push(v);
        }
    }
    pub fn merge(&mut self, o: COut) {
        self.evaluations += o.evaluations;
        self.distinct_nontrivial += o.distinct_nontrivial;
        for s in o.samples {
            if self.samples.len() < 6 {
                self.samples.push(s);
            }
        }
        self.extra.extend(o.extra);
        for v in o.violations {
            self.viol(v);
        }
        self.harness_errors.extend(o.harness_errors);
        self.distinct.extend(o.distinct);
    }
}

pub struct Custom {
    pub prop: &'static str,
    pub level: &'static str,
    pub rule: &'static str,
    pub assumptions: Vec<&'static str>,
    pub real: Vec<&'static str>,
    pub stub: Vec<&'static str>,
    pub run: fn(Tier, u64, usize) -> COut,
    /// re-run one replay file; Err = cannot parse (harness error)
    pub replay: fn(&str) -> Result<Vec<CViol>, String>,
}

pub fn registry(prop: &str) -> Option<Custom> {
    match prop {
        "C14" => Some(crate::props::c14::check()),
        _ => None,
    }
}

/// split 0..n over `workers` OS threads, each producing a COut; merged in index order
pub fn par<F: Fn(usize, usize) -> COut + Sync>(n: usize, workers: usize, f: F) -> COut {
    let workers = workers.max(1).min(n.max(1));
    let chunk = n.div_ceil(workers);
    let mut outs: Vec<(usize, COut)> = vec![];
    std::thread::scope(|s| {
        let mut hs = vec![];
        for w in 0..workers {
            let lo = w * chunk;
            let hi = ((w + 1) * chunk).min(n);
            if lo >= hi {
                continue;
            }
            let f = &f;
            hs.push((w, s.spawn(move || {
                crate::world::install_panic_hook();
                f(lo, hi)
            })));
        }
        for (w, h) in hs {
            match h.join() {
                Ok(o) => outs.push((w, o)),
                Err(_) => {
                    let mut o = COut::default();
                    o.harness_errors.push(format!("worker {} panicked", w));
                    outs.push((w, o));
                }
            }
        }
    });
    outs.sort_by_key(|x| x.0);
    let mut total = COut::default();
    for (_, o) in outs {
        total.merge(o);
    }
    if !total.distinct.is_empty() {
        total.distinct_nontrivial = total.distinct.len() as u64;
    }
    total
}
