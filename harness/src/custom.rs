//! Checks whose deciding runs are not two-daemon simulations (wire / io / udp seams), and the
//! common result type they hand to the command line.

use crate::checks::Tier;
use crate::json::J;

#[derive(Clone, Debug)]
pub struct CViol {
    pub clause: String,
    /// stable class of the violation (known-findings are matched on it)
    pub signature: String,
    pub detail: String,
    /// replay file content
    pub replay: String,
}

#[derive(Default)]
pub struct COut {
    pub evaluations: u64,
    pub distinct_nontrivial: u64,
    pub samples: Vec<String>,
    pub extra: Vec<(String, J)>,
    pub violations: Vec<CViol>,
    pub harness_errors: Vec<String>,
    pub exhaustive: bool,
    pub exhaustive_note: String,
    /// hashes of the distinct non-trivial cases (merged globally; overrides distinct_nontrivial)
    pub distinct: std::collections::HashSet<u64>,
}

impl COut {
    pub fn note_distinct<T: std::hash::Hash>(&mut self, t: &T) {
        use std::hash::Hasher;
        // FNV-style, independent of std's randomised hasher
        struct F(u64);
        impl Hasher for F {
            fn finish(&self) -> u64 {
                self.0
            }
            fn write(&mut self, b: &[u8]) {
                for x in b {
                    self.0 ^= *x as u64;
                    self.0 = self.0.wrapping_mul(0x100_0000_01b3);
                }
            }
        }
        let mut h = F(0xcbf2_9ce4_8422_2325);
        t.hash(&mut h);
        self.distinct.insert(h.finish());
    }
    pub fn viol(&mut self, v: CViol) {
        if self.violations.len() < 400 {
            self.violations.push(v);
        }
    }
    pub fn merge(&mut self, o: COut) {
        self.evaluations += o.evaluations;
        self.distinct_nontrivial += o.distinct_nontrivial;
        for s in o.samples {
            if self.samples.len() < 6 {
                self.samples.push(s);
            }
        }
        self.extra.extend(o.extra);
        for v in o.violations {
            self.viol(v);
        }
        self.harness_errors.extend(o.harness_errors);
        self.distinct.extend(o.distinct);
    }
}

pub struct Custom {
    pub prop: &'static str,
    pub level: &'static str,
    pub rule: &'static str,
    pub assumptions: Vec<&'static str>,
    pub real: Vec<&'static str>,
    pub stub: Vec<&'static str>,
    pub run: fn(Tier, u64, usize) -> COut,
    /// re-run one replay file; Err = cannot parse (harness error)
    pub replay: fn(&str) -> Result<Vec<CViol>, String>,
}

pub fn registry(prop: &str) -> Option<Custom> {
    match prop {
        "C06" => Some(crate::props::c06::check()),
        "C09" => Some(crate::props::c09::check()),
        "C14" => Some(crate::props::c14::check()),
        "C16" => Some(crate::props::c16::check()),
        "C15" => Some(crate::props::c15::check_entry()),
        _ => None,
    }
}

/// split 0..n over `workers` OS threads, each producing a COut; merged in index order
pub fn par<F: Fn(usize, usize) -> COut + Sync>(n: usize, workers: usize, f: F) -> COut {
    let workers = workers.max(1).min(n.max(1));
    let chunk = n.div_ceil(workers);
    let mut outs: Vec<(usize, COut)> = vec![];
    std::thread::scope(|s| {
        let mut hs = vec![];
        for w in 0..workers {
            let lo = w * chunk;
            let hi = ((w + 1) * chunk).min(n);
            if lo >= hi {
                continue;
            }
            let f = &f;
            hs.push((w, s.spawn(move || {
                crate::world::install_panic_hook();
                f(lo, hi)
            })));
        }
        for (w, h) in hs {
            match h.join() {
                Ok(o) => outs.push((w, o)),
                Err(_) => {
                    let mut o = COut::default();
                    o.harness_errors.push(format!("worker {} panicked", w));
                    outs.push((w, o));
                }
            }
        }
    });
    outs.sort_by_key(|x| x.0);
    let mut total = COut::default();
    for (_, o) in outs {
        total.merge(o);
    }
    if !total.distinct.is_empty() {
        total.distinct_nontrivial = total.distinct.len() as u64;
    }
    total
}

/// run a batch of simulated scenarios from inside a custom check; violations are minimised and
/// returned as scenario replays
pub fn sim_jobs(
    workers: usize,
    jobs: Vec<crate::runner::Job>,
    oracle: &crate::runner::Oracle,
    admissible: &(dyn Fn(&crate::scenario::Scenario) -> bool + Sync),
    sig_of: &dyn Fn(&crate::analysis::Violation, &crate::scenario::Scenario, &crate::world::RunRecord) -> String,
) -> COut {
    use crate::analysis::Analysis;
    let ctx = crate::runner::Ctx::new(workers);
    let hang: std::sync::Arc<crate::runner::HangHandler> = std::sync::Arc::new(|text: &str| {
        let path = format!("/verif/replays/hang-{}.replay", std::process::id());
        let _ = std::fs::create_dir_all("/verif/replays");
        let _ = std::fs::write(&path, text);
        eprintln!("HARNESS-ERROR: a simulated run hung (wall-clock watchdog); scenario written to {} - this is C03 territory", path);
        std::process::exit(2);
    });
    let mut out = COut::default();
    let none = |_: &Analysis| -> Vec<crate::analysis::Violation> { vec![] };
    let mut fired = crate::world::FaultCounts::default();
    let mut sim_us = 0u64;
    for job in &jobs {
        let (st, found) = crate::runner::run_job(&ctx, job, oracle, &none, &|a, o| crate::checks::common_probes(a, o), hang.clone());
        out.evaluations += st.runs;
        out.distinct.extend(st.fingerprints.iter().copied());
        fired.add(&st.counts);
        sim_us += st.sim_us;
        out.harness_errors.extend(st.harness_errors.iter().cloned());
        if let Some(s) = st.longest.as_ref() {
            if out.samples.len() < 4 {
                out.samples.push(s.1.clone());
            }
        }
        out.extra.push((format!("sim_job_runs: {}", job.label), J::i(st.runs)));
        let mut per_clause: std::collections::BTreeMap<String, u32> = Default::default();
        for f in found {
            let n = per_clause.entry(f.v.clause.to_string()).or_insert(0);
            *n += 1;
            if *n > 2 {
                continue;
            }
            let mut m = crate::minimise::Minimiser { admissible, ctx: &ctx, oracle, target: crate::minimise::Target { prop: f.v.prop, clause: f.v.clause }, budget: 600, used: 0 };
            let min = m.run(&f.sc);
            let rec = crate::runner::run_one(&ctx, &min);
            let a = Analysis::new(&rec);
            if let Some(v) = oracle(&a).into_iter().find(|v| v.prop == f.v.prop && v.clause == f.v.clause) {
                out.viol(CViol { clause: v.clause.to_string(), signature: sig_of(&v, &min, &rec), detail: v.detail.clone(), replay: min.to_text() });
            } else {
                out.harness_errors.push(format!("minimised scenario does not reproduce {}/{}", f.v.prop, f.v.clause));
            }
        }
    }
    let mut fc = J::obj();
    for (k, n) in fired.pairs() {
        fc.set(k, J::i(n));
    }
    out.extra.push(("sim_faults_fired".into(), fc));
    out.extra.push(("sim_simulated_seconds".into(), J::i(sim_us / 1_000_000)));
    ctx.cleanup();
    out
}

/// replay a scenario text under an oracle (for the in-situ parts of custom checks)
pub fn sim_replay(
    text: &str,
    oracle: &crate::runner::Oracle,
    sig_of: &dyn Fn(&crate::analysis::Violation, &crate::scenario::Scenario, &crate::world::RunRecord) -> String,
) -> Result<Vec<CViol>, String> {
    let sc = crate::scenario::Scenario::from_text(text)?;
    let ctx = crate::runner::Ctx::new(1);
    let rec = crate::runner::run_one(&ctx, &sc);
    let a = crate::analysis::Analysis::new(&rec);
    let vs = oracle(&a).into_iter().map(|v| CViol { clause: v.clause.to_string(), signature: sig_of(&v, &sc, &rec), detail: v.detail.clone(), replay: text.to_string() }).collect();
    Ok(vs)
}
