//! C04: a completed delivery is final.

use cfdp_core::{
    daemon::Indication,
    pdu::{Condition, DeliveryCode, FileStatusCode, Operations},
    transaction::TransactionState,
};

use crate::analysis::{op_of, Analysis, Violation};
use crate::oracle::{v, vv};
use crate::scenario::Kind;
use crate::world::{EvKind, FsOp};

fn integrity(c: Condition) -> bool {
    matches!(c, Condition::FileChecksumFailure | Condition::FilesizeError)
}

pub fn c04(a: &Analysis) -> Vec<Violation> {
    let mut out = vec![];
    for (pi, p) in a.rec.sc.puts.iter().enumerate() {
        if !a.rec.puts[pi].issued {
            continue;
        }
        let Some(t) = a.put_txn(pi) else { continue };
        let want_status = if p.file.is_some() { FileStatusCode::Retained } else { FileStatusCode::Unreported };
        let succ = t.at_dst.finished().into_iter().find(|(_, f)| {
            f.report.condition == Condition::NoError && f.delivery_code == DeliveryCode::Complete && f.file_status == want_status
        });
        // (d) a sender reports success only for a transaction its receiver reported as delivered
        if a.rec.sc.ents[p.dst].real {
            for (i, f) in t.at_src.finished() {
                if f.report.condition == Condition::NoError && f.delivery_code == DeliveryCode::Complete && f.file_status == want_status {
                    // unacknowledged without closure: the sender's local end-of-transfer report carries
                    // (NoError, Incomplete, Unreported), so it never matches here
                    let ok = succ.as_ref().map(|(si, _)| si.seq < i.seq).unwrap_or(false);
                    if !ok {
                        out.push(v(
                            "C04",
                            "sender_success_without_receiver_success",
                            format!("txn {:?}: sender reported success at seq {} but the receiver had not reported a successful delivery before", t.key, i.seq),
                        ));
                    }
                }
            }
        }
        let Some((si, _)) = succ else { continue };
        let s0 = si.seq;
        // end of the still-open transaction
        let w_end = t
            .at_dst
            .inds
            .iter()
            .find(|i| i.seq > s0 && matches!(&i.ind, Indication::Report(r) if r.state == TransactionState::Terminated))
            .map(|i| i.seq)
            .unwrap_or(u64::MAX);
        // (a) the delivered file never changes inside the window
        let samples = a.samples(pi);
        let at_succ = samples.iter().filter(|(s, _, _)| *s <= s0).last().map(|x| x.2).unwrap_or(None);
        for (s, _, d) in samples.iter().filter(|(s, _, _)| *s > s0 && *s <= w_end) {
            if *d != at_succ {
                out.push(v(
                    "C04",
                    "delivered_file_changed",
                    format!("txn {:?}: destination was {:?} at the success report (seq {}), is {:?} at seq {}", t.key, at_succ, s0, d, s),
                ));
                break;
            }
        }
        // (b) filestore requests are not executed again
        let again = a
            .rec
            .events
            .iter()
            .filter(|e| e.seq > s0 && e.seq <= w_end)
            .filter(|e| matches!(&e.k, EvKind::Fs { ent, op: FsOp::Request { .. } } if *ent == p.dst))
            .count();
        if again > 0 && a.rec.sc.puts.iter().filter(|q| q.dst == p.dst && !q.reqs.is_empty()).count() == 1 {
            out.push(v(
                "C04",
                "filestore_requests_executed_again",
                format!("txn {:?}: {} filestore request(s) executed after the successful delivery was reported", t.key, again),
            ));
        }
        // (c) no file-integrity failure is reported for the transaction afterwards
        for i in t.at_dst.inds.iter().filter(|i| i.seq > s0 && i.seq <= w_end) {
            let c = match &i.ind {
                Indication::Fault(f) => Some(f.condition),
                Indication::Finished(f) => Some(f.report.condition),
                Indication::Abandon(f) => Some(f.condition),
                _ => None,
            };
            if let Some(c) = c {
                if integrity(c) {
                    out.push(vv(
                        "C04",
                        "receiver_integrity_failure_after_success",
                        format!("{:?}", c),
                        format!("txn {:?}: receiver reported {:?} at seq {} after its successful delivery report at seq {}", t.key, c, i.seq, s0),
                    ));
                    break;
                }
            }
        }
        for s in t.at_dst.sent.iter().filter(|s| s.seq > s0 && s.seq <= w_end && s.kind == Kind::Fin) {
            if let Some(Operations::Finished(f)) = s.pdu.as_ref().and_then(|p| op_of(p)) {
                if integrity(f.condition) {
                    out.push(vv(
                        "C04",
                        "finished_pdu_integrity_failure_after_success",
                        format!("{:?}", f.condition),
                        format!("txn {:?}: Finished PDU with {:?} at seq {} after the successful delivery report at seq {}", t.key, f.condition, s.seq, s0),
                    ));
                    break;
                }
            }
        }
        for i in t.at_src.inds.iter().filter(|i| i.seq > s0) {
            let c = match &i.ind {
                Indication::Fault(f) => Some(f.condition),
                Indication::Finished(f) => Some(f.report.condition),
                Indication::Abandon(f) => Some(f.condition),
                _ => None,
            };
            if let Some(c) = c {
                if integrity(c) {
                    out.push(vv(
                        "C04",
                        "sender_integrity_failure_after_success",
                        format!("{:?}", c),
                        format!("txn {:?}: sender reported {:?} at seq {} although the receiver had reported a successful delivery at seq {}", t.key, c, i.seq, s0),
                    ));
                    break;
                }
            }
        }
    }
    out
}
