//! Property oracles over a recorded history. Each returns the violations of *its* property only.

use cfdp_core::{
    daemon::Indication,
    pdu::{Condition, DeliveryCode, FileStatusCode},
    transaction::TransactionState,
};

use crate::analysis::{is_success, Analysis, Side, Txn, Violation};
use crate::scenario::{Entry, Scenario, UserOp};
use crate::world::{EvKind, RunRecord};


pub mod c04;
pub mod c18;

pub fn v(prop: &'static str, clause: &'static str, detail: String) -> Violation {
    Violation { prop, clause, detail, value: String::new() }
}
pub fn vv(prop: &'static str, clause: &'static str, value: String, detail: String) -> Violation {
    Violation { prop, clause, detail, value }
}

/// state of the destination file of `put` as the receiver's user could observe it at event `seq`
pub fn dest_at(a: &Analysis, put: usize, seq: u64) -> Option<(u64, u64)> {
    let mut cur = None;
    for (s, _vt, d) in a.samples(put) {
        if s <= seq {
            cur = d;
        } else {
            break;
        }
    }
    cur
}

pub fn digest(b: &[u8]) -> (u64, u64) {
    (b.len() as u64, crate::prng::fnv(b))
}

// ---------------------------------------------------------------------------------------------
// C01: a file reported as delivered is byte-identical to the source

pub fn c01(a: &Analysis) -> Vec<Violation> {
    let mut out = vec![];
    for t in a.txns.values() {
        let Some(put) = t.put else { continue };
        let p = &a.rec.sc.puts[put];
        if p.file.is_none() {
            continue;
        }
        let Some(src) = a.rec.puts[put].source.as_ref() else { continue };
        let want = digest(src);
        // the transaction's own filestore requests (or another Put) may legitimately change the
        // delivered file before the success report reaches the user: not attributable
        if dest_touched_by_requests(&a.rec.sc, put) {
            continue;
        }
        // receiver side reports
        for (i, f) in t.at_dst.finished() {
            if is_success(f) {
                let got = dest_at(a, put, i.seq);
                if got != Some(want) {
                    out.push(v(
                        "C01",
                        "receiver_success_wrong_file",
                        format!(
                            "txn {:?}: receiver reported (NoError,Complete,Retained) at seq {} but destination '{}' is {:?}, source is {:?}",
                            t.key, i.seq, p.dst_name, got, want
                        ),
                    ));
                }
            }
        }
        // sender side reports
        if a.rec.sc.ents[p.dst].real {
            for (i, f) in t.at_src.finished() {
                if is_success(f) {
                    let got = dest_at(a, put, i.seq);
                    if got != Some(want) {
                        out.push(v(
                            "C01",
                            "sender_success_wrong_file",
                            format!(
                                "txn {:?}: sender reported (NoError,Complete,Retained) at seq {} but destination '{}' at the receiver is {:?}, source is {:?}",
                                t.key, i.seq, p.dst_name, got, want
                            ),
                        ));
                    }
                }
            }
            // end of run: last word of the receiver is success => final file equals source
            if let Some((_, f)) = t.at_dst.finished().last() {
                if is_success(f) {
                    let fin = a.final_file(p.dst, &p.dst_name).map(|b| digest(b));
                    if fin != Some(want) && !dest_touched_by_requests(&a.rec.sc, put) {
                        out.push(v(
                            "C01",
                            "final_file_differs",
                            format!(
                                "txn {:?}: last receiver report is success but final destination is {:?}, source {:?}",
                                t.key, fin, want
                            ),
                        ));
                    }
                }
            }
        }
    }
    out
}

/// lexical normalisation of a filestore name ('.', '', leading '/' dropped, '..' pops)
pub fn lexnorm(name: &str) -> String {
    let mut out: Vec<&str> = vec![];
    for c in name.split('/') {
        match c {
            "" | "." => {}
            ".." => {
                out.pop();
            }
            x => out.push(x),
        }
    }
    out.join("/")
}

fn dest_touched_by_requests(sc: &Scenario, put: usize) -> bool {
    let name = lexnorm(&sc.puts[put].dst_name);
    // a request naming the file itself, or a directory above it
    let hits = |n: &str| {
        let n = lexnorm(n);
        !n.is_empty() && (n == name || name.starts_with(&format!("{}/", n)))
    };
    sc.puts.iter().enumerate().any(|(i, p)| (i != put && p.dst == sc.puts[put].dst && lexnorm(&p.dst_name) == name) || p.reqs.iter().any(|r| hits(&r.first) || hits(&r.second)))
}

// ---------------------------------------------------------------------------------------------
// C02: acknowledged mode recovers from bounded loss/dup/reorder (scenario is inside the envelope)

pub fn c02(a: &Analysis) -> Vec<Violation> {
    let mut out = vec![];
    for (pi, p) in a.rec.sc.puts.iter().enumerate() {
        if p.unack || !a.rec.puts[pi].issued {
            continue;
        }
        out.extend(c02_put(a, pi, "C02"));
    }
    out
}

/// the completion obligation for one acknowledged put (re-used by C11, C19 under their own id)
pub fn c02_put(a: &Analysis, pi: usize, prop: &'static str) -> Vec<Violation> {
    let mut out = vec![];
    let p = &a.rec.sc.puts[pi];
    let Some(t) = a.put_txn(pi) else {
        out.push(v(prop, "no_transaction", format!("put #{} never produced a transaction", pi)));
        return out;
    };
    let want_status =
        if p.file.is_some() { FileStatusCode::Retained } else { FileStatusCode::Unreported };
    let ok = |f: &cfdp_core::daemon::FinishedIndication| {
        f.report.condition == Condition::NoError
            && f.delivery_code == DeliveryCode::Complete
            && f.file_status == want_status
    };
    match t.at_dst.first_finished() {
        None => out.push(v(
            prop,
            "receiver_no_finished",
            format!("txn {:?}: receiver never reported Finished", t.key),
        )),
        Some((_, f)) if !ok(f) => out.push(v(
            prop,
            "receiver_first_finished_not_success",
            format!(
                "txn {:?}: receiver's first Finished is ({:?},{:?},{:?})",
                t.key, f.report.condition, f.delivery_code, f.file_status
            ),
        )),
        _ => {}
    }
    match t.at_src.first_finished() {
        None => out.push(v(
            prop,
            "sender_no_finished",
            format!("txn {:?}: sender never reported Finished", t.key),
        )),
        Some((_, f)) if !ok(f) => out.push(v(
            prop,
            "sender_first_finished_not_success",
            format!(
                "txn {:?}: sender's first Finished is ({:?},{:?},{:?})",
                t.key, f.report.condition, f.delivery_code, f.file_status
            ),
        )),
        _ => {}
    }
    if let (Some(_), Some(src)) = (&p.file, a.rec.puts[pi].source.as_ref()) {
        let fin = a.final_file(p.dst, &p.dst_name).map(|b| digest(b));
        if fin != Some(digest(src)) && !dest_touched_by_requests(&a.rec.sc, pi) {
            out.push(v(
                prop,
                "dest_differs",
                format!("txn {:?}: final destination {:?} != source {:?}", t.key, fin, digest(src)),
            ));
        }
    }
    if !t.at_src.ended() {
        out.push(v(prop, "sender_not_ended", format!("txn {:?}: sender transaction still alive at end of run", t.key)));
    }
    if !t.at_dst.ended() {
        out.push(v(prop, "receiver_not_ended", format!("txn {:?}: receiver transaction still alive at end of run", t.key)));
    }
    out
}

// ---------------------------------------------------------------------------------------------
// C03: every transaction ends in bounded time

/// B(E) in microseconds, for entity index e
pub fn bound_us(sc: &Scenario, e: usize, file_size: u64) -> u64 {
    let en = &sc.ents[e];
    let ladder = 2 * en.limit.max(1) as u64 * (en.t_inact + en.t_ack + en.t_nak).max(1) as u64;
    // both entities' nak delay may hold back a round; take the larger one
    let nak_delay_us = sc.ents.iter().map(|x| x.nak_delay_ms).max().unwrap_or(0) * 1000;
    let seg = en.seg.max(1) as u64;
    let per_pdu = sc.ser_us + sc.ser_ns_byte * (seg + 64) / 1000;
    let link = (file_size / seg + 8) * per_pdu * 2 + 4 * sc.lat_us;
    ladder * 1_000_000 + nak_delay_us + 2_000_000 + link
}

pub struct Exempt {
    pub suspended_by_user: bool,
    pub ignore_or_suspend_handler: bool,
}

pub fn exemptions(a: &Analysis, t: &Txn, side: &Side, ent: usize) -> Exempt {
    // user suspend not followed by an accepted resume
    let mut suspended = false;
    for e in &a.rec.events {
        if let EvKind::User { ent: ue, op, id, accepted, .. } = &e.k {
            if *ue == ent && *id == t.key && *accepted {
                match op {
                    UserOp::Suspend => suspended = true,
                    // a cancel request ends a suspension: the cancelled transaction has to end
                    UserOp::Resume | UserOp::Cancel => suspended = false,
                    _ => {}
                }
            }
        }
    }
    let mut handler = false;
    for i in &side.inds {
        if let Indication::Fault(f) = &i.ind {
            let code = f.condition as u8;
            if a.rec.sc.ents[ent].handlers.iter().any(|(c, act)| *c == code && (*act == 2 || *act == 3)) {
                handler = true;
            }
        }
    }
    Exempt { suspended_by_user: suspended, ignore_or_suspend_handler: handler }
}

pub fn c03(a: &Analysis) -> Vec<Violation> {
    let mut out = vec![];
    if a.rec.step_budget_hit {
        out.push(v("C03", "spin", format!("step budget exceeded: {} events", a.rec.events.len())));
    }
    for (i, alive) in a.rec.daemon_alive.iter().enumerate() {
        if !alive {
            out.push(v("C03", "daemon_stopped", format!("daemon of entity {} is no longer running", i)));
        }
    }
    for pr in &a.rec.probes {
        if pr.timed_out {
            out.push(v(
                "C03",
                "daemon_unresponsive",
                format!("entity {} did not answer (or refuse) a Report request for {:?}", pr.ent, pr.key),
            ));
        }
    }
    // the daemon keeps serving: a Put between entities whose links carry no fault at all completes
    for (pi, p) in a.rec.sc.puts.iter().enumerate() {
        if !p.src_name.starts_with("canary") || !a.rec.puts[pi].issued || p.unack {
            continue;
        }
        let touched = a.rec.sc.script.iter().any(|e| match e {
            Entry::Fault { src, dst, .. } | Entry::Blackout { src, dst, .. } | Entry::Inject { src, dst, .. } => (*src == p.src && *dst == p.dst) || (*src == p.dst && *dst == p.src),
            // a transfer issued long after a crashed entity was restarted ("canarylate") is owed service
            Entry::Crash { ent, .. } if p.src_name.starts_with("canarylate") && a.rec.sc.script.iter().any(|r| matches!(r, Entry::Restart { ent: re, .. } if re == ent)) => false,
            Entry::Stall { ent, .. } | Entry::Crash { ent, .. } | Entry::FsFault { ent, .. } => *ent == p.src || *ent == p.dst,
            Entry::ClockJump { .. } => true,
            _ => false,
        });
        if touched {
            continue;
        }
        for x in c02_put(a, pi, "C03") {
            out.push(vv("C03", "other_transaction_not_served", x.clause.to_string(), format!("while the cut-off transaction ran through its timers: {}", x.detail)));
        }
    }
    let has_jump = a.rec.sc.script.iter().any(|e| matches!(e, Entry::ClockJump { .. } | Entry::Stall { .. }));
    for t in a.txns.values() {
        let fsize = t.put.and_then(|p| a.rec.sc.puts[p].file.as_ref().map(|f| f.size)).unwrap_or(0);
        for (side, ent, role) in [
            (&t.at_src, Some(t.src_ent), "sender"),
            (&t.at_dst, t.dst_ent, "receiver"),
        ] {
            let Some(ent) = ent else { continue };
            if !a.rec.sc.ents[ent].real || !side.existed {
                continue;
            }
            let ex = exemptions(a, t, side, ent);
            if ex.suspended_by_user || ex.ignore_or_suspend_handler {
                continue;
            }
            // a transaction that existed at an entity when its process died went with it (and what a
            // restarted entity builds under the same id from later PDUs is mixed into this record)
            let first_seq = side.inds.first().map(|i| i.seq).into_iter().chain(side.sent.first().map(|s| s.seq)).chain(side.recvd.first().map(|r| r.seq)).min().unwrap_or(0);
            if a.rec.events.iter().any(|e| matches!(&e.k, EvKind::Crash { ent: ce } if *ce == ent) && e.seq > first_seq) {
                continue;
            }
            // last thing that legitimately (re)started activity at this entity for this txn
            let mut t_last = side.inds.first().map(|i| i.vt).unwrap_or(0);
            for r in &side.recvd {
                t_last = t_last.max(r.vt);
            }
            for e in &a.rec.events {
                match &e.k {
                    EvKind::User { ent: ue, id, accepted: true, .. } if *ue == ent && *id == t.key => {
                        t_last = t_last.max(e.vt)
                    }
                    EvKind::ClockJump { us } => t_last = t_last.max(e.vt + us),
                    _ => {}
                }
            }
            let b = bound_us(&a.rec.sc, ent, fsize);
            match side.end_vt {
                Some(end) => {
                    if !has_jump && end > t_last + b {
                        out.push(v(
                            "C03",
                            "ended_late",
                            format!(
                                "txn {:?} {} at entity {} ended at {}us, last input at {}us, bound {}us",
                                t.key, role, ent, end, t_last, b
                            ),
                        ));
                    }
                }
                None => {
                    if side.alive_at_end == Some(true) && a.rec.end_vt > t_last + b {
                        out.push(v(
                            "C03",
                            "never_ended",
                            format!(
                                "txn {:?} {} at entity {} still alive at {}us (last input {}us, bound {}us); last report {:?}",
                                t.key,
                                role,
                                ent,
                                a.rec.end_vt,
                                t_last,
                                b,
                                a.rec.probes.iter().find(|p| p.ent == ent && p.key == t.key).and_then(|p| p.report)
                            ),
                        ));
                    }
                }
            }
        }
    }
    let _ = TransactionState::Active;
    out
}

// ---------------------------------------------------------------------------------------------
// monitors that apply to every run: panics, sentinel (C12), wire transparency self-check

pub fn harness_checks(a: &Analysis) -> Vec<String> {
    let mut out = vec![];
    // Wire transparency of what real entities emit is a self-check of the harness's link only as
    // long as the entities are fed conforming traffic. Forged datagrams (a damaged copy whose
    // large-file flag was flipped, delivered into a small-flag transaction) can make a real receiver
    // build a NAK whose offsets do not fit its own header's file-size flag; that says something
    // about the receiver's robustness (recorded in DESIGN 14.2), not about the harness.
    if a.rec.sc.script.iter().any(|e| matches!(e, Entry::Inject { what: crate::scenario::What::Raw(_), .. })) {
        return out;
    }
    for s in &a.sends {
        if s.injected {
            continue;
        }
        if let Some(p) = &s.pdu {
            // wire transparency self-check (C05 by-product): decode(encode(p)) == p
            match cfdp_core::pdu::PDU::decode(&mut s.bytes.as_slice()) {
                Ok(q) if &q == p.as_ref() => {}
                other => out.push(format!("wire transparency: seq {} {:?} decodes to {:?}", s.seq, p, other.map_err(|e| e.to_string()))),
            }
            use cfdp_core::pdu::PDUEncode;
            if p.encoded_len() as usize + if p.header.crc_flag == cfdp_core::pdu::CRCFlag::Present { 2 } else { 0 } != s.bytes.len() {
                out.push(format!("encoded_len mismatch at seq {}: {} vs {}", s.seq, p.encoded_len(), s.bytes.len()));
            }
        }
    }
    out
}

pub fn c12_sentinel(a: &Analysis) -> Vec<Violation> {
    let mut out = vec![];
    if !a.rec.sentinel_ok {
        out.push(v("C12", "outside_root_changed", a.rec.sentinel_note.clone()));
    }
    out
}
