//! C18: unacknowledged mode is one-way unless closure is requested; closure works.

use cfdp_core::{
    daemon::Indication,
    pdu::{Condition, DeliveryCode, FileStatusCode, Operations},
};

use crate::analysis::{fd_range, op_of, Analysis, IntervalSet, Violation};
use crate::oracle::{dest_at, digest, v, vv};
use crate::scenario::Kind;
use crate::world::{kind_of, Fate};

pub fn c18(a: &Analysis) -> Vec<Violation> {
    let mut out = vec![];
    for (pi, p) in a.rec.sc.puts.iter().enumerate() {
        if !p.unack || !a.rec.puts[pi].issued {
            continue;
        }
        let Some(t) = a.put_txn(pi) else { continue };
        let closure = a.rec.sc.ents[p.src].closure;
        let size = p.file.as_ref().map(|f| f.size).unwrap_or(0);
        let real_rx = a.rec.sc.ents[p.dst].real;
        let real_tx = a.rec.sc.ents[p.src].real;

        // (a) kinds on the link
        if real_rx {
            for s in &t.at_dst.sent {
                match s.kind {
                    Kind::AckEof | Kind::AckFin | Kind::Nak | Kind::Ka => out.push(vv(
                        "C18",
                        "receiver_sent_forbidden_kind",
                        s.kind.name().to_string(),
                        format!("txn {:?}: unacknowledged receiver emitted {} at seq {}", t.key, s.kind.name(), s.seq),
                    )),
                    Kind::Fin if !closure => out.push(v(
                        "C18",
                        "finished_without_closure",
                        format!("txn {:?}: receiver emitted Finished at seq {} although closure was not requested", t.key, s.seq),
                    )),
                    _ => {}
                }
            }
        }
        if real_tx {
            let md = t.at_src.sent.iter().filter(|s| s.kind == Kind::Md).count();
            if md > 1 {
                out.push(v("C18", "metadata_retransmitted", format!("txn {:?}: metadata sent {} times", t.key, md)));
            }
            // file data exactly once, in order
            let mut covered = IntervalSet::default();
            for s in t.at_src.sent.iter().filter(|s| s.kind == Kind::Fd) {
                if let Some((a0, b0, _)) = s.pdu.as_ref().and_then(|p| fd_range(p)) {
                    if a0 < b0 {
                        let newb = covered.insert(a0, b0);
                        if newb != b0 - a0 {
                            out.push(v(
                                "C18",
                                "data_retransmitted",
                                format!("txn {:?}: bytes [{}..{}) sent more than once in unacknowledged mode", t.key, a0, b0),
                            ));
                        }
                    }
                }
            }
        }

        // what the first incarnation of the receiver held when its first EOF arrived
        let first_eof = t.at_dst.recvd.iter().find(|r| r.pdu.as_ref().map(|p| kind_of(p) == Kind::Eof).unwrap_or(false));
        let held_before = |seq: u64| -> (bool, IntervalSet) {
            let mut md = false;
            let mut set = IntervalSet::default();
            for r in t.at_dst.recvd.iter().filter(|r| r.seq < seq) {
                if let Some(pd) = &r.pdu {
                    match kind_of(pd) {
                        Kind::Md => md = true,
                        Kind::Fd => {
                            if let Some((x, y, _)) = fd_range(pd) {
                                set.insert(x, y);
                            }
                        }
                        _ => {}
                    }
                }
            }
            (md, set)
        };

        if real_rx {
            // (d) soundness for every report of the receiver: Complete only if metadata and every
            // byte reached the entity before the report (superset over incarnations)
            for i in &t.at_dst.inds {
                let (dc, cond, fs) = match &i.ind {
                    Indication::Finished(f) => (f.delivery_code, f.report.condition, f.file_status),
                    _ => continue,
                };
                if dc == DeliveryCode::Complete {
                    let (md, set) = held_before(i.seq);
                    if !(md && set.covers(0, size)) {
                        out.push(vv(
                            "C18",
                            "complete_reported_with_missing_data",
                            format!("{:?}", cond),
                            format!(
                                "txn {:?}: receiver indication at seq {} says delivery Complete ({:?},{:?}) but metadata present={} and held={:?} of [0,{})",
                                t.key, i.seq, cond, fs, md, set.0, size
                            ),
                        ));
                    }
                }
            }
            for s in t.at_dst.sent.iter().filter(|s| s.kind == Kind::Fin) {
                if let Some(Operations::Finished(f)) = s.pdu.as_ref().and_then(|p| op_of(p)) {
                    if f.delivery_code == DeliveryCode::Complete {
                        let (md, set) = held_before(s.seq);
                        if !(md && set.covers(0, size)) {
                            out.push(vv(
                                "C18",
                                "finished_pdu_complete_with_missing_data",
                                format!("{:?}", f.condition),
                                format!("txn {:?}: Finished PDU at seq {} says Complete but metadata present={} held={:?} of [0,{})", t.key, s.seq, md, set.0, size),
                            ));
                        }
                    }
                }
            }
            // exact verdict of the first incarnation
            // the exact clauses below speak about the transaction that was open when the first EOF
            // arrived: they apply only if that EOF was processed by the first incarnation, i.e.
            // its EoFRecv indication precedes any fault / termination of that incarnation
            let eof_ind = t.at_dst.inds.iter().position(|i| matches!(i.ind, Indication::EoFRecv(_)));
            let first_end = t.at_dst.inds.iter().position(|i| match &i.ind {
                Indication::Report(r) => r.state == cfdp_core::transaction::TransactionState::Terminated,
                Indication::Fault(_) | Indication::Abandon(_) => true,
                _ => false,
            });
            let inc1_got_eof = match (eof_ind, first_end) {
                (Some(e), Some(x)) => e < x,
                (Some(_), None) => true,
                _ => false,
            };
            if let Some(eof) = first_eof.filter(|_| inc1_got_eof) {
                let eof_ok =matches!(eof.pdu.as_ref().and_then(|p| op_of(p)), Some(Operations::EoF(e)) if e.condition == Condition::NoError);
                let (md, set) = held_before(eof.seq);
                let truth = md && set.covers(0, size);
                let first_fin = t.at_dst.first_finished();
                if eof_ok {
                    match first_fin {
                        None => out.push(v(
                            "C18",
                            "receiver_no_report_after_eof",
                            format!("txn {:?}: EOF delivered at seq {} but the receiver never reported Finished", t.key, eof.seq),
                        )),
                        Some((fi, f)) => {
                            if truth && p.file.is_some() {
                                let want = a.rec.puts[pi].source.as_ref().map(|s| digest(s));
                                let ok = f.report.condition == Condition::NoError
                                    && f.delivery_code == DeliveryCode::Complete
                                    && f.file_status == FileStatusCode::Retained;
                                if !ok {
                                    out.push(vv(
                                        "C18",
                                        "complete_delivery_not_reported",
                                        format!("{:?}", f.report.condition),
                                        format!(
                                            "txn {:?}: metadata and all of [0,{}) were delivered before EOF but the receiver reported ({:?},{:?},{:?})",
                                            t.key, size, f.report.condition, f.delivery_code, f.file_status
                                        ),
                                    ));
                                } else if dest_at(a, pi, fi.seq) != want {
                                    out.push(v(
                                        "C18",
                                        "complete_but_file_differs",
                                        format!("txn {:?}: reported complete but destination is {:?}, source {:?}", t.key, dest_at(a, pi, fi.seq), want),
                                    ));
                                }
                            }
                            // (c) closure: a Finished PDU follows, carrying the indicated outcome
                            if closure && md {
                                let fin = t.at_dst.sent.iter().find(|s| s.kind == Kind::Fin && s.seq > eof.seq);
                                match fin.and_then(|s| s.pdu.as_ref()).and_then(|p| op_of(p)) {
                                    Some(Operations::Finished(pf)) => {
                                        if pf.condition != f.report.condition || pf.delivery_code != f.delivery_code || pf.file_status != f.file_status {
                                            out.push(v(
                                                "C18",
                                                "finished_pdu_differs_from_indication",
                                                format!(
                                                    "txn {:?}: Finished PDU ({:?},{:?},{:?}) vs indication ({:?},{:?},{:?})",
                                                    t.key, pf.condition, pf.delivery_code, pf.file_status, f.report.condition, f.delivery_code, f.file_status
                                                ),
                                            ));
                                        }
                                    }
                                    _ => out.push(v(
                                        "C18",
                                        "closure_no_finished_pdu",
                                        format!("txn {:?}: closure requested, EOF delivered at seq {}, but the receiver sent no Finished PDU", t.key, eof.seq),
                                    )),
                                }
                            }
                        }
                    }
                }
                // (b) without closure the receiver ends on EOF
                if !closure && eof_ok && md && t.at_dst.incarnations <= 1 {
                    match t.at_dst.end_vt {
                        Some(e) if e <= eof.vt + 1 => {}
                        other => out.push(v(
                            "C18",
                            "receiver_not_ended_on_eof",
                            format!("txn {:?}: no closure, EOF delivered at {}us, receiver end = {:?}", t.key, eof.vt, other),
                        )),
                    }
                }
            }
        }

        if real_tx {
            let eof_sent = t.at_src.sent.iter().find(|s| s.kind == Kind::Eof);
            if !closure {
                // (b) the sender ends when it has emitted EOF
                if let Some(e) = eof_sent {
                    let user_touched = a.rec.events.iter().any(|ev| matches!(&ev.k, crate::world::EvKind::User { id, accepted: true, .. } if *id == t.key));
                    if !user_touched {
                        match t.at_src.end_vt {
                            Some(end) if end <= e.vt + a.rec.sc.ser_us + 2 => {}
                            other => out.push(v(
                                "C18",
                                "sender_not_ended_on_eof",
                                format!("txn {:?}: no closure, EOF emitted at {}us, sender end = {:?}", t.key, e.vt, other),
                            )),
                        }
                    }
                }
            } else if let Some(e) = eof_sent {
                // (c) the sender waits for the Finished PDU (or its own ladder)
                let fin_recv = t.at_src.recvd.iter().find(|r| r.pdu.as_ref().map(|p| kind_of(p) == Kind::Fin).unwrap_or(false));
                let en = &a.rec.sc.ents[p.src];
                let ladder_us = en.limit.max(1) as u64 * en.t_ack.min(en.t_inact).max(1) as u64 * 1_000_000;
                let user_touched = a.rec.events.iter().any(|ev| matches!(&ev.k, crate::world::EvKind::User { id, accepted: true, .. } if *id == t.key));
                if let Some(end) = t.at_src.end_vt {
                    let waited_enough = end >= e.vt + ladder_us;
                    let got_fin = fin_recv.map(|r| r.vt <= end).unwrap_or(false);
                    if !got_fin && !waited_enough && !user_touched {
                        out.push(v(
                            "C18",
                            "sender_did_not_wait_for_closure",
                            format!(
                                "txn {:?}: closure requested, EOF emitted at {}us, sender ended at {}us without a Finished PDU (delivered: {:?}) and before its limit ladder ({}us)",
                                t.key, e.vt, end, fin_recv.map(|r| r.vt), ladder_us
                            ),
                        ));
                    }
                }
                if let Some(r) = fin_recv {
                    if let Some(Operations::Finished(pf)) = r.pdu.as_ref().and_then(|p| op_of(p)) {
                        // its Finished indication repeats the delivered PDU's outcome
                        let ind = t.at_src.finished().into_iter().find(|(i, _)| i.seq > r.seq);
                        match ind {
                            Some((_, f)) => {
                                if f.filestore_responses != pf.filestore_response {
                                    out.push(v(
                                        "C18",
                                        "sender_report_differs_from_finished_pdu",
                                        format!("txn {:?}: the Finished PDU delivered at seq {} carries {} filestore response(s), the sender's indication {}", t.key, r.seq, pf.filestore_response.len(), f.filestore_responses.len()),
                                    ));
                                }
                                if f.report.condition != pf.condition || f.delivery_code != pf.delivery_code || f.file_status != pf.file_status {
                                    out.push(v(
                                        "C18",
                                        "sender_report_differs_from_finished_pdu",
                                        format!(
                                            "txn {:?}: Finished PDU ({:?},{:?},{:?}) delivered at seq {} but sender indication is ({:?},{:?},{:?})",
                                            t.key, pf.condition, pf.delivery_code, pf.file_status, r.seq, f.report.condition, f.delivery_code, f.file_status
                                        ),
                                    ));
                                }
                            }
                            None => {
                                // only demanded if the sender was still alive when it arrived: decided
                                // by virtual instants, not by log order inside one instant (the
                                // transport pulls a datagram before the transaction sees it; a
                                // sender whose last timer expiry falls on the same instant had
                                // already ended when the PDU would have been handed over)
                                if t.at_src.end_vt.map(|e| e > r.vt).unwrap_or(true) && t.at_src.first_finished().is_none() {
                                    out.push(v(
                                        "C18",
                                        "sender_no_report_after_finished_pdu",
                                        format!("txn {:?}: Finished PDU delivered to the live sender at seq {} but no Finished indication followed", t.key, r.seq),
                                    ));
                                }
                            }
                        }
                    }
                }
            }
        }
        let _ = Fate::Dropped;
    }
    out
}
