//! SplitMix64 -> xoshiro256** ; the only source of randomness in the harness.

#[derive(Clone, Debug)]
pub struct Rng {
    s: [u64; 4],
}

pub fn splitmix(x: &mut u64) -> u64 {
    *x = x.wrapping_add(0x9E37_79B9_7F4A_7C15);
    let mut z = *x;
    z = (z ^ (z >> 30)).wrapping_mul(0xBF58_476D_1CE4_E5B9);
    z = (z ^ (z >> 27)).wrapping_mul(0x94D0_49BB_1331_11EB);
    z ^ (z >> 31)
}

/// mix a batch seed and a run index into a run seed
pub fn mix(seed: u64, i: u64) -> u64 {
    let mut x = seed ^ i.wrapping_mul(0xD6E8_FEB8_6659_FD93).rotate_left(17);
    let a = splitmix(&mut x);
    let b = splitmix(&mut x);
    a ^ b.rotate_left(32) ^ i
}

impl Rng {
    pub fn new(seed: u64) -> Self {
        let mut x = seed;
        let s = [
            splitmix(&mut x),
            splitmix(&mut x),
            splitmix(&mut x),
            splitmix(&mut x),
        ];
        Rng { s }
    }
    pub fn next_u64(&mut self) -> u64 {
        let r = self.s[1].wrapping_mul(5).rotate_left(7).wrapping_mul(9);
        let t = self.s[1] << 17;
        self.s[2] ^= self.s[0];
        self.s[3] ^= self.s[1];
        self.s[1] ^= self.s[2];
        self.s[0] ^= self.s[3];
        self.s[2] ^= t;
        self.s[3] = self.s[3].rotate_left(45);
        r
    }
    /// uniform in [0, n) ; n > 0
    pub fn below(&mut self, n: u64) -> u64 {
        debug_assert!(n > 0);
        // multiply-shift; bias is negligible for our n
        ((self.next_u64() as u128 * n as u128) >> 64) as u64
    }
    pub fn range(&mut self, lo: u64, hi_incl: u64) -> u64 {
        lo + self.below(hi_incl - lo + 1)
    }
    pub fn usize_below(&mut self, n: usize) -> usize {
        self.below(n as u64) as usize
    }
    /// true with probability num/den
    pub fn chance(&mut self, num: u64, den: u64) -> bool {
        self.below(den) < num
    }
    pub fn pick<'a, T>(&mut self, xs: &'a [T]) -> &'a T {
        &xs[self.usize_below(xs.len())]
    }
    pub fn shuffle<T>(&mut self, xs: &mut [T]) {
        for i in (1..xs.len()).rev() {
            let j = self.usize_below(i + 1);
            xs.swap(i, j);
        }
    }
    pub fn fill(&mut self, buf: &mut [u8]) {
        for chunk in buf.chunks_mut(8) {
            let v = self.next_u64().to_le_bytes();
            chunk.copy_from_slice(&v[..chunk.len()]);
        }
    }
}

/// FNV-1a 64 — used for fingerprints (not security relevant)
pub fn fnv(data: &[u8]) -> u64 {
    let mut h: u64 = 0xcbf2_9ce4_8422_2325;
    for b in data {
        h ^= *b as u64;
        h = h.wrapping_mul(0x0000_0100_0000_01B3);
    }
    h
}

pub fn fnv_add(h: u64, data: &[u8]) -> u64 {
    let mut h = h;
    for b in data {
        h ^= *b as u64;
        h = h.wrapping_mul(0x0000_0100_0000_01B3);
    }
    h
}
