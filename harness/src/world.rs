//! The simulated world: one paused current-thread tokio runtime, real daemons, a byte-level link,
//! simulated users, scripted peers, and the recorded history.

use std::{
    cmp::Reverse,
    collections::{BinaryHeap, HashMap},
    io::{Error as IoError, ErrorKind},
    sync::{Arc, Mutex},
    time::Duration,
};

use async_trait::async_trait;
use camino::Utf8PathBuf;
use cfdp_core::{
    daemon::{EntityConfig, Indication, NakProcedure, PutRequest, Report, UserPrimitive},
    filestore::ChecksumType,
    pdu::{
        ACKSubDirective, CRCFlag, Condition, EntityID, FaultHandlerAction, FileStoreAction,
        FileStoreRequest, FileStoreResponse, MessageToUser, NakOrKeepAlive, Operations,
        PDUDirective, PDUEncode, PDUPayload, TransmissionMode, VariableID, PDU,
    },
    transaction::{TransactionID, TransactionState},
};
use cfdp_daemon::{transport::PDUTransport, Daemon};
use tokio::{
    sync::{mpsc, oneshot, Notify},
    task::JoinHandle,
    time::Instant,
};

use crate::{
    content,
    scenario::{Act, Entry, IndKind, Kind, Scenario, Sel, Trigger, UserOp, What},
    simfs::SimFs,
};

pub type TxnKey = (u64, u64); // (source entity id value, sequence number value)

pub fn key_of(id: &TransactionID) -> TxnKey {
    (id.0.to_u64(), id.1.to_u64())
}

pub fn make_id(idw: u8, v: u64) -> VariableID {
    match idw {
        1 => VariableID::U8(v as u8),
        2 => VariableID::U16(v as u16),
        4 => VariableID::U32(v as u32),
        _ => VariableID::U64(v),
    }
}

pub fn kind_of(pdu: &PDU) -> Kind {
    match &pdu.payload {
        PDUPayload::FileData(_) => Kind::Fd,
        PDUPayload::Directive(op) => match op {
            Operations::EoF(_) => Kind::Eof,
            Operations::Finished(_) => Kind::Fin,
            Operations::Ack(a) => {
                if a.directive == PDUDirective::Finished
                    && a.directive_subtype_code == ACKSubDirective::Finished
                {
                    Kind::AckFin
                } else {
                    Kind::AckEof
                }
            }
            Operations::Metadata(_) => Kind::Md,
            Operations::Nak(_) => Kind::Nak,
            Operations::Prompt(_) => Kind::Prompt,
            Operations::KeepAlive(_) => Kind::Ka,
        },
    }
}

pub fn ind_kind(i: &Indication) -> IndKind {
    match i {
        Indication::Transaction(_) => IndKind::Transaction,
        Indication::EoFSent(_) => IndKind::EofSent,
        Indication::EoFRecv(_) => IndKind::EofRecv,
        Indication::Finished(_) => IndKind::Finished,
        Indication::MetadataRecv(_) => IndKind::MdRecv,
        Indication::FileSegmentRecv(_) => IndKind::SegRecv,
        Indication::Suspended(_) => IndKind::Suspended,
        Indication::Resumed(_) => IndKind::Resumed,
        Indication::Report(_) => IndKind::Report,
        Indication::Fault(_) => IndKind::Fault,
        Indication::Abandon(_) => IndKind::Abandon,
    }
}

pub fn ind_txn(i: &Indication) -> TxnKey {
    match i {
        Indication::Transaction(id) | Indication::EoFSent(id) | Indication::EoFRecv(id) => key_of(id),
        Indication::Finished(f) => key_of(&f.id),
        Indication::MetadataRecv(m) => key_of(&m.id),
        Indication::FileSegmentRecv(s) => key_of(&s.id),
        Indication::Suspended(s) => key_of(&s.id),
        Indication::Resumed(r) => key_of(&r.id),
        Indication::Report(r) => key_of(&r.id),
        Indication::Fault(f) | Indication::Abandon(f) => key_of(&f.id),
    }
}

#[derive(Clone, Debug, PartialEq, Eq)]
pub enum Fate {
    /// normal delivery after base latency (possibly plus extra delay, possibly with extra copies)
    Pass { extra_us: u64, copies: u32 },
    Dropped,
    Blackout,
    /// delivered damaged
    Damaged,
    /// destination has no inbox (unknown entity)
    NoRoute,
}

#[derive(Clone, Debug)]
pub enum FsOp {
    Open { path: String, ok: bool, injected: bool },
    Tempfile { ok: bool, full: bool },
    Request { req: FileStoreRequest, resp: FileStoreResponse },
}

#[derive(Clone, Debug)]
pub enum EvKind {
    /// a datagram was handed to the link
    Send {
        src: usize,
        dst: usize,
        n: u32,
        kind: Kind,
        kn: u32,
        bytes: Arc<Vec<u8>>,
        pdu: Option<Arc<PDU>>,
        fate: Fate,
        injected: bool,
    },
    /// a datagram was pulled by the transport of dst and decoded (or not)
    Recv { dst: usize, src: usize, send_seq: u64, bytes: Arc<Vec<u8>>, pdu: Option<Arc<PDU>> },
    PutIssued { put: usize, ent: usize, predicted: TxnKey },
    PutId { put: usize, id: TxnKey },
    User { ent: usize, op: UserOp, put: usize, id: TxnKey, accepted: bool },
    Ind { ent: usize, ind: Indication },
    Fs { ent: usize, op: FsOp },
    /// sample of the destination file of a put: None = does not exist
    Sample { put: usize, digest: Option<(u64, u64)> },
    Blackout { src: usize, dst: usize, on: bool },
    ClockJump { us: u64 },
    /// the entity's daemon, transport and every transaction task vanish (only files survive)
    Crash { ent: usize },
    /// a fresh daemon is started for the entity on the surviving filestore
    Restart { ent: usize },
    Panic { msg: String },
    Note { msg: String },
}

#[derive(Clone, Debug)]
pub struct Ev {
    pub seq: u64,
    /// virtual microseconds since start of run
    pub vt: u64,
    pub k: EvKind,
}

#[derive(Clone, Debug, Default)]
pub struct FaultCounts {
    pub drop: u64,
    pub dup: u64,
    pub delay: u64,
    pub flip: u64,
    pub trunc: u64,
    pub blackout_drop: u64,
    pub inject: u64,
    pub cancel: u64,
    pub suspend: u64,
    pub resume: u64,
    pub prompt: u64,
    pub report: u64,
    pub clock_jump: u64,
    pub stall: u64,
    pub fs_fault: u64,
    pub crash: u64,
    pub restart: u64,
}
impl FaultCounts {
    pub fn add(&mut self, o: &FaultCounts) {
        self.drop += o.drop;
        self.dup += o.dup;
        self.delay += o.delay;
        self.flip += o.flip;
        self.trunc += o.trunc;
        self.blackout_drop += o.blackout_drop;
        self.inject += o.inject;
        self.cancel += o.cancel;
        self.suspend += o.suspend;
        self.resume += o.resume;
        self.prompt += o.prompt;
        self.report += o.report;
        self.clock_jump += o.clock_jump;
        self.stall += o.stall;
        self.fs_fault += o.fs_fault;
        self.crash += o.crash;
        self.restart += o.restart;
    }
    pub fn total_link(&self) -> u64 {
        self.drop + self.dup + self.delay + self.flip + self.trunc + self.blackout_drop + self.inject
    }
    pub fn total_user(&self) -> u64 {
        self.cancel + self.suspend + self.resume + self.prompt
    }
    pub fn pairs(&self) -> Vec<(&'static str, u64)> {
        vec![
            ("drop", self.drop),
            ("dup", self.dup),
            ("delay", self.delay),
            ("corrupt", self.flip),
            ("truncate", self.trunc),
            ("blackout_drop", self.blackout_drop),
            ("inject_or_replay", self.inject),
            ("cancel", self.cancel),
            ("suspend", self.suspend),
            ("resume", self.resume),
            ("prompt", self.prompt),
            ("report_probe", self.report),
            ("clock_jump", self.clock_jump),
            ("stall", self.stall),
            ("fs_fault", self.fs_fault),
            ("crash", self.crash),
            ("restart", self.restart),
        ]
    }
}

#[derive(Clone, Debug)]
pub struct PutInfo {
    pub predicted: TxnKey,
    pub actual: Option<TxnKey>,
    pub source: Option<Arc<Vec<u8>>>,
    pub issued: bool,
}

#[derive(Clone, Debug)]
pub struct Probe {
    pub ent: usize,
    pub key: TxnKey,
    /// Some(report) = the transaction answered; None = reply channel dropped (ended / unknown)
    pub report: Option<(TransactionState, Condition)>,
    pub timed_out: bool,
}

#[derive(Clone, Debug)]
pub struct RunRecord {
    pub sc: Arc<Scenario>,
    pub events: Vec<Ev>,
    pub puts: Vec<PutInfo>,
    pub probes: Vec<Probe>,
    pub daemon_alive: Vec<bool>,
    pub end_vt: u64,
    pub horizon_us: u64,
    pub counts: FaultCounts,
    pub panics: Vec<String>,
    pub step_budget_hit: bool,
    pub sentinel_ok: bool,
    pub sentinel_note: String,
    pub root: String,
    /// final snapshot of each real entity's filestore: path -> Some(bytes) file / None dir
    pub fs_final: Vec<Vec<(String, Option<Vec<u8>>)>>,
    /// snapshot of each real entity's filestore before the run
    pub fs_initial: Vec<Vec<(String, Option<Vec<u8>>)>>,
}

// ---------------------------------------------------------------------------------------------

#[derive(Clone, Debug)]
enum Action {
    Blackout { idx: usize, on: bool },
    User { ent: usize, op: UserOp, put: usize },
    IssuePut { put: usize },
    Inject { src: usize, dst: usize, what: What, delay_us: u64 },
    ClockJump { us: u64 },
    Stall { ent: usize, us: u64 },
    Crash { ent: usize },
    Restart { ent: usize },
}

struct Pending {
    trig: Trigger,
    act: Action,
}

struct HeapItem {
    at: u64,
    order: u64,
    src: usize,
    send_seq: u64,
    bytes: Arc<Vec<u8>>,
}
impl PartialEq for HeapItem {
    fn eq(&self, o: &Self) -> bool {
        self.at == o.at && self.order == o.order
    }
}
impl Eq for HeapItem {}
impl PartialOrd for HeapItem {
    fn partial_cmp(&self, o: &Self) -> Option<std::cmp::Ordering> {
        Some(self.cmp(o))
    }
}
impl Ord for HeapItem {
    fn cmp(&self, o: &Self) -> std::cmp::Ordering {
        (self.at, self.order).cmp(&(o.at, o.order))
    }
}

struct BlackoutSt {
    src: usize,
    dst: usize,
    on: bool,
}

struct Inner {
    events: Vec<Ev>,
    dir_n: HashMap<(usize, usize), u32>,
    kind_n: HashMap<(usize, usize, Kind), u32>,
    ind_n: HashMap<(usize, IndKind), u32>,
    sent: HashMap<(usize, usize), Vec<(Kind, Arc<Vec<u8>>)>>,
    blackouts: Vec<BlackoutSt>,
    pending: Vec<Pending>,
    timed: BinaryHeap<Reverse<(u64, u64)>>,
    timed_acts: HashMap<u64, Action>,
    heaps: Vec<BinaryHeap<Reverse<HeapItem>>>,
    order: u64,
    inbox_tx: Vec<Option<mpsc::UnboundedSender<(usize, u64, Arc<Vec<u8>>)>>>,
    prim_tx: Vec<Option<mpsc::Sender<UserPrimitive>>>,
    puts: Vec<PutInfo>,
    put_count: Vec<u64>,
    stalled_until: Vec<u64>,
    counts: FaultCounts,
    fs_calls: HashMap<(usize, String), u32>,
    steps: u64,
    step_budget: u64,
    step_budget_hit: bool,
    sample_puts: bool,
    dest_paths: Vec<Option<std::path::PathBuf>>,
    ser_block_until: Vec<u64>,
    /// incarnation number of each entity's daemon (bumped by a crash)
    epoch: Vec<u32>,
    /// crashed and not (yet) restarted
    down: Vec<bool>,
    daemon_handles: Vec<Option<JoinHandle<()>>>,
}

pub struct World {
    pub sc: Arc<Scenario>,
    t0: Instant,
    inner: Mutex<Inner>,
    link_notify: Vec<Notify>,
    sched_notify: Notify,
    pub root: Utf8PathBuf,
    live: bool,
    /// wall-clock guard (the one real-time element inside a run): healthy 200 ms ticks of the
    /// process-wide ticker thread seen by this run, the flag it raises, and the wake-ups
    guard_ticks: std::sync::atomic::AtomicU64,
    guard_abort: std::sync::atomic::AtomicBool,
    guard_notify: Notify,
    guard_limit: u64,
}

/// ticks (200 ms each, stalls of the whole process not counted) after which a run that has not
/// ended by itself is cut: virtual time stands still in a livelock, so nothing inside the
/// simulation would ever end it
const GUARD_TICKS: u64 = 50;
/// a run that was cut is executed once more under a much longer limit before the cut counts: a
/// loaded host can make a healthy run of a heavy scenario (a thousand PDUs at one instant) take
/// seconds, a livelock never ends
const GUARD_TICKS_CONFIRM: u64 = 150;
/// once a livelock has been confirmed in this process, later runs are cut sooner (a tree that
/// livelocks does so in many runs; each would cost a minute otherwise)
const GUARD_TICKS_AFTER_A_CUT: u64 = 8;
const GUARD_TICKS_CONFIRM_AFTER_A_CUT: u64 = 12;
static GUARD_CUTS: std::sync::atomic::AtomicU64 = std::sync::atomic::AtomicU64::new(0);

/// one thread per process ticks every world in progress; a run is only disturbed (one wake-up of its
/// guard task) when it is already older than any healthy run
fn start_ticker() {
    static T: std::sync::Once = std::sync::Once::new();
    T.call_once(|| {
        std::thread::spawn(|| {
            let mut last = std::time::Instant::now();
            loop {
                std::thread::sleep(std::time::Duration::from_millis(200));
                let dt = last.elapsed().as_millis() as u64;
                last = std::time::Instant::now();
                if dt > 700 {
                    continue; // the whole process was stalled: no tick
                }
                let worlds: Vec<Arc<World>> = LIVE_WORLDS.lock().unwrap().iter().filter_map(|w| w.upgrade()).collect();
                for w in worlds {
                    let t = w.guard_ticks.fetch_add(1, std::sync::atomic::Ordering::Relaxed) + 1;
                    if t >= w.guard_limit {
                        w.guard_abort.store(true, std::sync::atomic::Ordering::Relaxed);
                        w.guard_notify.notify_one();
                    }
                }
            }
        });
    });
}

pub struct RunOpts {
    pub step_budget: u64,
    /// sample destination files after every event concerning the receiving entity
    pub sample_puts: bool,
    pub keep_fs: bool,
}
impl Default for RunOpts {
    fn default() -> Self {
        RunOpts { step_budget: 60_000, sample_puts: true, keep_fs: false }
    }
}

impl World {
    pub fn now_us(&self) -> u64 {
        Instant::now().saturating_duration_since(self.t0).as_micros() as u64
    }

    fn push(&self, inner: &mut Inner, k: EvKind) -> u64 {
        let seq = inner.events.len() as u64;
        if self.live {
            let e = Ev { seq, vt: self.now_us(), k: k.clone() };
            eprintln!("LIVE {}", crate::analysis::render_ev(&e));
        }
        inner.events.push(Ev { seq, vt: self.now_us(), k });
        inner.steps += 1;
        if inner.steps > inner.step_budget {
            inner.step_budget_hit = true;
        }
        seq
    }

    pub fn entity_value(&self, ent: usize) -> u64 {
        ent as u64 + 1
    }
    pub fn entity_id(&self, ent: usize) -> EntityID {
        make_id(self.sc.idw, self.entity_value(ent))
    }
    pub fn ent_of_value(&self, v: u64) -> Option<usize> {
        if v >= 1 && (v as usize) <= self.sc.ents.len() {
            Some(v as usize - 1)
        } else {
            None
        }
    }

    /// replace the placeholders of hostile-name scenarios by the real (per-run) directories
    pub fn subst(&self, name: &str, ent: usize) -> String {
        if !name.contains('{') {
            return name.to_string();
        }
        name.replace("{ROOTX}", self.root.join(format!("jail/e{}x", ent)).as_str())
            .replace("{ROOT}", self.root.join(format!("jail/e{}", ent)).as_str())
            .replace("{JAIL}", self.root.join("jail").as_str())
    }

    pub fn epoch_of(&self, ent: usize) -> u32 {
        self.inner.lock().unwrap().epoch[ent]
    }
    pub fn budget_hit(&self) -> bool {
        self.inner.lock().unwrap().step_budget_hit
    }

    // ---- filestore seam --------------------------------------------------------------------
    pub fn fs_event(&self, ent: usize, op: FsOp) {
        let mut g = self.inner.lock().unwrap();
        self.push(&mut g, EvKind::Fs { ent, op });
        // no sample here: a filestore call is made from inside a synchronous step of a transaction
        // (e.g. between truncating the destination and copying the staged file into it), which no
        // user of this single-threaded daemon can observe; samples are taken at indications and
        // whenever the entity hands a PDU to the link
    }
    pub fn fs_fault(&self, ent: usize, op: &str) -> bool {
        let mut g = self.inner.lock().unwrap();
        let c = g.fs_calls.entry((ent, op.to_string())).or_insert(0);
        let n = *c;
        *c += 1;
        let hit = self.sc.script.iter().any(|e| {
            matches!(e, Entry::FsFault { ent: fe, op: fop, nth } if *fe == ent && fop == op && *nth == n)
        });
        if hit {
            g.counts.fs_fault += 1;
        }
        hit
    }

    fn sample(&self, g: &mut Inner, ent: usize) {
        if !g.sample_puts {
            return;
        }
        for (pi, p) in self.sc.puts.iter().enumerate() {
            if p.dst != ent || !g.puts[pi].issued {
                continue;
            }
            let Some(path) = g.dest_paths[pi].clone() else { continue };
            let digest = match std::fs::read(&path) {
                Ok(b) => Some((b.len() as u64, crate::prng::fnv(&b))),
                Err(_) => None,
            };
            // only log changes
            let last = g.events.iter().rev().find_map(|e| match &e.k {
                EvKind::Sample { put, digest } if *put == pi => Some(*digest),
                _ => None,
            });
            if last != Some(digest) {
                self.push(g, EvKind::Sample { put: pi, digest });
            }
        }
    }

    // ---- link ------------------------------------------------------------------------------

    /// A datagram is handed to the link by entity `src` for `dst_val`. Returns the serialisation
    /// time the sender's transport has to wait.
    pub fn link_send(
        &self,
        src: usize,
        dst_val: u64,
        bytes: Vec<u8>,
        pdu: Option<PDU>,
        injected: bool,
        inject_delay_us: u64,
    ) -> u64 {
        let mut g = self.inner.lock().unwrap();
        let now = self.now_us();
        let dst = match self.ent_of_value(dst_val) {
            Some(d) => d,
            None => {
                let b = Arc::new(bytes);
                let kind = pdu.as_ref().map(kind_of).unwrap_or(Kind::Bad);
                self.push(
                    &mut g,
                    EvKind::Send {
                        src,
                        dst: usize::MAX,
                        n: 0,
                        kind,
                        kn: 0,
                        bytes: b,
                        pdu: pdu.map(Arc::new),
                        fate: Fate::NoRoute,
                        injected,
                    },
                );
                return 0;
            }
        };
        let kind = pdu.as_ref().map(kind_of).unwrap_or(Kind::Bad);
        let bytes = Arc::new(bytes);
        let (n, kn) = if injected {
            (u32::MAX, u32::MAX)
        } else {
            let n = {
                let c = g.dir_n.entry((src, dst)).or_insert(0);
                let v = *c;
                *c += 1;
                v
            };
            let kn = {
                let c = g.kind_n.entry((src, dst, kind)).or_insert(0);
                let v = *c;
                *c += 1;
                v
            };
            g.sent.entry((src, dst)).or_default().push((kind, bytes.clone()));
            (n, kn)
        };

        let ser = if injected {
            0
        } else {
            self.sc.ser_us + (self.sc.ser_ns_byte * bytes.len() as u64) / 1000
        };
        let base = now + self.sc.lat_us + inject_delay_us;

        // fate
        let mut fate = Fate::Pass { extra_us: 0, copies: 1 };
        let mut deliveries: Vec<(u64, Arc<Vec<u8>>)> = vec![];
        let blacked = !injected && g.blackouts.iter().any(|b| b.on && b.src == src && b.dst == dst);
        if blacked {
            fate = Fate::Blackout;
            g.counts.blackout_drop += 1;
        } else {
            let mut acts: Vec<Act> = vec![];
            if !injected {
                for e in self.sc.script.iter() {
                    if let Entry::Fault { src: fs, dst: fd, sel, act } = e {
                        if *fs == src && *fd == dst {
                            let m = match sel {
                                Sel::Nth(x) => *x == n,
                                Sel::Kind(k, x) => *k == kind && *x == kn,
                            };
                            if m {
                                acts.push(act.clone());
                            }
                        }
                    }
                }
            }
            let mut dropped = false;
            let mut extra = 0u64;
            let mut copies = 1u32;
            let mut gap = 0u64;
            let mut payload = bytes.clone();
            let mut damaged = false;
            for a in acts {
                match a {
                    Act::Drop => {
                        dropped = true;
                        g.counts.drop += 1;
                    }
                    Act::Dup { n, gap_us } => {
                        copies += n;
                        gap = gap_us;
                        g.counts.dup += 1;
                    }
                    Act::Delay { us } => {
                        extra += us;
                        g.counts.delay += 1;
                    }
                    Act::Flip { bits } => {
                        let mut v = (*payload).clone();
                        for b in bits {
                            let byte = (b / 8) as usize;
                            if byte < v.len() {
                                v[byte] ^= 0x80 >> (b % 8);
                            }
                        }
                        payload = Arc::new(v);
                        damaged = true;
                        g.counts.flip += 1;
                    }
                    Act::Trunc { len } => {
                        let mut v = (*payload).clone();
                        v.truncate(len as usize);
                        payload = Arc::new(v);
                        damaged = true;
                        g.counts.trunc += 1;
                    }
                }
            }
            if dropped {
                fate = Fate::Dropped;
            } else {
                fate = if damaged { Fate::Damaged } else { Fate::Pass { extra_us: extra, copies } };
                for c in 0..copies {
                    deliveries.push((base + extra + gap * c as u64, payload.clone()));
                }
            }
        }

        let seq = self.push(
            &mut g,
            EvKind::Send {
                src,
                dst,
                n,
                kind,
                kn,
                bytes: bytes.clone(),
                pdu: pdu.map(Arc::new),
                fate,
                injected,
            },
        );
        for (at, payload) in deliveries {
            self.enqueue(&mut g, dst, src, at, seq, payload);
        }
        if !injected {
            self.fire(&mut g, |t| match t {
                Trigger::AfterPdu { src: s, dst: d, n: x } => *s == src && *d == dst && *x == n,
                Trigger::AfterKind { src: s, dst: d, kind: k, k: x } => {
                    *s == src && *d == dst && *k == kind && *x == kn
                }
                _ => false,
            });
        }
        self.sample(&mut g, src);
        ser
    }

    fn enqueue(
        &self,
        g: &mut Inner,
        dst: usize,
        src: usize,
        mut at: u64,
        send_seq: u64,
        bytes: Arc<Vec<u8>>,
    ) {
        if g.stalled_until[dst] > at {
            at = g.stalled_until[dst];
        }
        g.order += 1;
        let order = g.order;
        g.heaps[dst].push(Reverse(HeapItem { at, order, src, send_seq, bytes }));
        self.link_notify[dst].notify_one();
    }

    /// evaluate pending triggers with a predicate over the *base* trigger
    fn fire(&self, g: &mut Inner, pred: impl Fn(&Trigger) -> bool) {
        let now = self.now_us();
        let mut i = 0;
        let mut ready: Vec<Action> = vec![];
        while i < g.pending.len() {
            let (hit, plus) = match &g.pending[i].trig {
                Trigger::Plus(b, us) => (pred(b), *us),
                t => (pred(t), 0),
            };
            if hit {
                let p = g.pending.remove(i);
                if plus == 0 {
                    ready.push(p.act);
                } else {
                    self.schedule(g, now + plus, p.act);
                }
            } else {
                i += 1;
            }
        }
        for a in ready {
            self.exec(g, a);
        }
    }

    fn schedule(&self, g: &mut Inner, at: u64, act: Action) {
        g.order += 1;
        let id = g.order;
        g.timed.push(Reverse((at, id)));
        g.timed_acts.insert(id, act);
        self.sched_notify.notify_one();
    }

    /// execute an action inline (non-async ones) or hand it to the scheduler task
    fn exec(&self, g: &mut Inner, act: Action) {
        match act {
            Action::Blackout { idx, on } => {
                g.blackouts[idx].on = on;
                let (src, dst) = (g.blackouts[idx].src, g.blackouts[idx].dst);
                self.push(g, EvKind::Blackout { src, dst, on });
            }
            Action::User { ent, op, put } => {
                // a put index of RAW_TXN + n addresses the transaction (entity 0, sequence number n)
                // of a scripted sender, which has no Put behind it
                let id = if put >= crate::scenario::RAW_TXN { (self.entity_value(0), (put - crate::scenario::RAW_TXN) as u64) } else { g.puts[put].predicted };
                let tid = TransactionID(make_id(self.sc.idw, id.0), make_id(self.sc.idw, id.1));
                let prim = match op {
                    UserOp::Cancel => {
                        g.counts.cancel += 1;
                        UserPrimitive::Cancel(tid)
                    }
                    UserOp::Suspend => {
                        g.counts.suspend += 1;
                        UserPrimitive::Suspend(tid)
                    }
                    UserOp::Resume => {
                        g.counts.resume += 1;
                        UserPrimitive::Resume(tid)
                    }
                    UserOp::PromptNak => {
                        g.counts.prompt += 1;
                        UserPrimitive::Prompt(tid, NakOrKeepAlive::Nak)
                    }
                    UserOp::PromptKa => {
                        g.counts.prompt += 1;
                        UserPrimitive::Prompt(tid, NakOrKeepAlive::KeepAlive)
                    }
                    UserOp::Report => {
                        g.counts.report += 1;
                        let (tx, _rx) = oneshot::channel();
                        UserPrimitive::Report(tid, tx)
                    }
                };
                let accepted = match g.prim_tx.get(ent).and_then(|x| x.as_ref()) {
                    Some(tx) => tx.try_send(prim).is_ok(),
                    None => false,
                };
                self.push(g, EvKind::User { ent, op, put, id, accepted });
            }
            Action::IssuePut { put } => self.issue_put(g, put),
            Action::Inject { src, dst, what, delay_us } => {
                let bytes: Option<Arc<Vec<u8>>> = match &what {
                    What::Copy { src: s, dst: d, n } => {
                        g.sent.get(&(*s, *d)).and_then(|v| v.get(*n as usize)).map(|x| x.1.clone())
                    }
                    What::CopyKind { src: s, dst: d, kind, k } => g.sent.get(&(*s, *d)).and_then(|v| {
                        v.iter().filter(|x| x.0 == *kind).nth(*k as usize).map(|x| x.1.clone())
                    }),
                    What::Raw(b) => Some(Arc::new(b.clone())),
                    What::Meta { seq, unack, closure, null, size, src_name, dst_name, reqs } => {
                        let e = &self.sc.ents[src.min(self.sc.ents.len() - 1)];
                        let h = crate::pdus::Hdr { idw: self.sc.idw, src: self.entity_value(src), seq: *seq, dst: self.entity_value(dst), unack: *unack, crc: e.crc, large: false };
                        let rq = reqs
                            .iter()
                            .map(|r| FileStoreRequest {
                                action_code: action_from(r.action),
                                first_filename: Utf8PathBuf::from(self.subst(&r.first, dst)),
                                second_filename: Utf8PathBuf::from(self.subst(&r.second, dst)),
                            })
                            .collect();
                        Some(Arc::new(h.metadata(*size, &self.subst(src_name, src), &self.subst(dst_name, dst), *closure, *null, rq)))
                    }
                };
                match bytes {
                    Some(b) => {
                        g.counts.inject += 1;
                        // log as an injected send, then enqueue
                        let pdu = safe_decode(b.as_slice());
                        let kind = pdu.as_ref().map(kind_of).unwrap_or(Kind::Bad);
                        let now = self.now_us();
                        let seq = self.push(
                            g,
                            EvKind::Send {
                                src,
                                dst,
                                n: u32::MAX,
                                kind,
                                kn: u32::MAX,
                                bytes: b.clone(),
                                pdu: pdu.map(Arc::new),
                                fate: Fate::Pass { extra_us: delay_us, copies: 1 },
                                injected: true,
                            },
                        );
                        if dst < g.heaps.len() {
                            self.enqueue(g, dst, src, now + self.sc.lat_us + delay_us, seq, b);
                        }
                    }
                    None => {
                        self.push(g, EvKind::Note { msg: format!("inject: nothing to copy for {:?}", what) });
                    }
                }
            }
            Action::Stall { ent, us } => {
                let now = self.now_us();
                g.stalled_until[ent] = now + us;
                g.counts.stall += 1;
                // push already queued deliveries behind the stall
                let items: Vec<HeapItem> = g.heaps[ent].drain().map(|r| r.0).collect();
                for mut it in items {
                    if it.at < now + us {
                        it.at = now + us;
                    }
                    g.heaps[ent].push(Reverse(it));
                }
                self.link_notify[ent].notify_one();
            }
            a @ (Action::ClockJump { .. } | Action::Crash { .. } | Action::Restart { .. }) => {
                let now = self.now_us();
                self.schedule(g, now, a);
            }
        }
    }

    fn issue_put(&self, g: &mut Inner, put: usize) {
        let p = &self.sc.puts[put];
        let ent = p.src;
        let count = g.put_count[ent];
        g.put_count[ent] += 1;
        // the counter wraps within the width of the identifiers
        let mask = match self.sc.idw {
            1 => 0xFFu64,
            2 => 0xFFFF,
            4 => 0xFFFF_FFFF,
            _ => u64::MAX,
        };
        let predicted = (self.entity_value(ent), self.sc.ents[ent].seq0.wrapping_add(count) & mask);
        g.puts[put].predicted = predicted;
        g.puts[put].issued = true;
        let req = PutRequest {
            source_filename: Utf8PathBuf::from(self.subst(&p.src_name, p.src)),
            destination_filename: Utf8PathBuf::from(self.subst(&p.dst_name, p.dst)),
            destination_entity_id: self.entity_id(p.dst),
            transmission_mode: if p.unack {
                TransmissionMode::Unacknowledged
            } else {
                TransmissionMode::Acknowledged
            },
            filestore_requests: p
                .reqs
                .iter()
                .map(|r| FileStoreRequest {
                    action_code: action_from(r.action),
                    first_filename: Utf8PathBuf::from(self.subst(&r.first, p.dst)),
                    second_filename: Utf8PathBuf::from(self.subst(&r.second, p.dst)),
                })
                .collect(),
            message_to_user: p.msgs.iter().map(|m| MessageToUser { message_text: m.clone() }).collect(),
        };
        let (tx, rx) = oneshot::channel();
        let ok = match g.prim_tx.get(ent).and_then(|x| x.as_ref()) {
            Some(ptx) => ptx.try_send(UserPrimitive::Put(req, tx)).is_ok(),
            None => false,
        };
        self.push(g, EvKind::PutIssued { put, ent, predicted });
        if ok && p.src_name.starts_with("ff_") {
            // a fire-and-forget Put: the user does not wait for the transaction id (the reply
            // channel is gone when the daemon answers)
            drop(rx);
        } else if ok {
            // the reply is collected by the scheduler side: stash receiver
            PUT_REPLIES.with(|r| r.borrow_mut().push((put, rx)));
        }
    }

    pub fn indication(&self, ent: usize, ind: Indication) {
        let mut g = self.inner.lock().unwrap();
        let kind = ind_kind(&ind);
        let k = {
            let c = g.ind_n.entry((ent, kind)).or_insert(0);
            let v = *c;
            *c += 1;
            v
        };
        // sample first: the state recorded before an indication is the state the user can see
        // when it receives it
        self.sample(&mut g, ent);
        self.push(&mut g, EvKind::Ind { ent, ind });
        self.fire(&mut g, |t| match t {
            Trigger::AfterInd { ent: e, kind: kk, k: x } => *e == ent && *kk == kind && *x == k,
            _ => false,
        });
    }

    fn recv_event(&self, dst: usize, src: usize, send_seq: u64, bytes: Arc<Vec<u8>>, pdu: Option<PDU>) {
        let mut g = self.inner.lock().unwrap();
        self.push(&mut g, EvKind::Recv { dst, src, send_seq, bytes, pdu: pdu.map(Arc::new) });
    }

    pub fn note(&self, msg: String) {
        let mut g = self.inner.lock().unwrap();
        self.push(&mut g, EvKind::Note { msg });
    }
}

/// worlds of runs in progress in this process (a run that hangs can still be read from outside)
pub static LIVE_WORLDS: Mutex<Vec<std::sync::Weak<World>>> = Mutex::new(Vec::new());

/// What a run that never returned had recorded so far: the history up to the hang, the filestore
/// as it is now, no probes. Only safety clauses may be judged on it.
pub fn partial_records() -> Vec<RunRecord> {
    let worlds: Vec<Arc<World>> = LIVE_WORLDS.lock().unwrap().iter().filter_map(|w| w.upgrade()).collect();
    let mut out = vec![];
    for w in worlds {
        // the spinning task does not hold the lock (a spin touches no seam); be patient anyway
        let mut guard = None;
        for _ in 0..200 {
            if let Ok(g) = w.inner.try_lock() {
                guard = Some(g);
                break;
            }
            std::thread::sleep(std::time::Duration::from_millis(10));
        }
        let Some(g) = guard else { continue };
        let nent = w.sc.ents.len();
        let end_vt = g.events.last().map(|e| e.vt).unwrap_or(0);
        out.push(RunRecord {
            sc: w.sc.clone(),
            events: g.events.clone(),
            puts: g.puts.clone(),
            probes: vec![],
            daemon_alive: vec![true; nent],
            end_vt,
            horizon_us: auto_horizon_us(&w.sc),
            counts: g.counts.clone(),
            panics: vec![],
            step_budget_hit: false,
            sentinel_ok: true,
            sentinel_note: String::new(),
            root: w.root.to_string(),
            fs_final: (0..nent).map(|i| snapshot_tree(w.root.join(format!("jail/e{}", i)).as_std_path())).collect(),
            fs_initial: vec![],
        });
    }
    out
}

thread_local! {
    static PUT_REPLIES: std::cell::RefCell<Vec<(usize, oneshot::Receiver<TransactionID>)>> = const { std::cell::RefCell::new(Vec::new()) };
    pub static PANICS: std::cell::RefCell<Vec<String>> = const { std::cell::RefCell::new(Vec::new()) };
}

pub fn action_from(a: u8) -> FileStoreAction {
    match a {
        0 => FileStoreAction::CreateFile,
        1 => FileStoreAction::DeleteFile,
        2 => FileStoreAction::RenameFile,
        3 => FileStoreAction::AppendFile,
        4 => FileStoreAction::ReplaceFile,
        5 => FileStoreAction::CreateDirectory,
        6 => FileStoreAction::RemoveDirectory,
        7 => FileStoreAction::DenyFile,
        _ => FileStoreAction::DenyDirectory,
    }
}

pub fn cond_from(c: u8) -> Condition {
    use Condition::*;
    match c {
        0 => NoError,
        1 => PositiveLimitReached,
        2 => KeepAliveLimitReached,
        3 => InvalidTransmissionMode,
        4 => FileStoreRejection,
        5 => FileChecksumFailure,
        6 => FilesizeError,
        7 => NakLimitReached,
        8 => InactivityDetected,
        9 => InvalidFileStructure,
        10 => CheckLimitReached,
        11 => UnsupportedChecksumType,
        14 => SuspendReceived,
        _ => CancelReceived,
    }
}
pub fn action_h_from(a: u8) -> FaultHandlerAction {
    match a {
        1 => FaultHandlerAction::Cancel,
        2 => FaultHandlerAction::Suspend,
        3 => FaultHandlerAction::Ignore,
        _ => FaultHandlerAction::Abandon,
    }
}

// ---------------------------------------------------------------------------------------------
// transport seam

pub struct SimTransport {
    world: Arc<World>,
    ent: usize,
    /// the incarnation of the entity this transport belongs to
    epoch: u32,
    inbox: mpsc::UnboundedReceiver<(usize, u64, Arc<Vec<u8>>)>,
}

#[async_trait]
impl PDUTransport for SimTransport {
    async fn request(&mut self, destination: VariableID, pdu: PDU) -> Result<(), IoError> {
        // a stalled node does not send
        loop {
            let until = { self.world.inner.lock().unwrap().stalled_until[self.ent] };
            let now = self.world.now_us();
            if until > now {
                tokio::time::sleep(Duration::from_micros(until - now)).await;
            } else {
                break;
            }
        }
        if self.world.epoch_of(self.ent) != self.epoch {
            // the entity crashed: nothing leaves it any more (ends the handler of the dead daemon)
            return Err(IoError::new(ErrorKind::ConnectionAborted, "entity crashed"));
        }
        let bytes = pdu.clone().encode();
        let ser = self.world.link_send(self.ent, destination.to_u64(), bytes, Some(pdu), false, 0);
        if ser > 0 {
            tokio::time::sleep(Duration::from_micros(ser)).await;
        }
        Ok(())
    }

    async fn receive(&mut self) -> Result<PDU, IoError> {
        match self.inbox.recv().await {
            Some((src, send_seq, bytes)) => {
                // exactly what UdpTransport does with a datagram: decode its bytes
                let res = PDU::decode(&mut bytes.as_slice());
                match res {
                    Ok(pdu) => {
                        self.world.recv_event(self.ent, src, send_seq, bytes, Some(pdu.clone()));
                        Ok(pdu)
                    }
                    Err(err) => {
                        self.world.recv_event(self.ent, src, send_seq, bytes, None);
                        Err(IoError::new(ErrorKind::InvalidData, err.to_string()))
                    }
                }
            }
            None => {
                // link gone (end of run): never resolve, so the handler does not spin
                std::future::pending::<()>().await;
                unreachable!()
            }
        }
    }
}

// ---------------------------------------------------------------------------------------------
// entities: start, crash, restart

/// start (or restart) the daemon of a real entity on its filestore directory
fn start_daemon(world: &Arc<World>, i: usize) {
    let sc = world.sc.clone();
    let e = &sc.ents[i];
    let nent = sc.ents.len();
    let (inbox_tx, inbox_rx) = mpsc::unbounded_channel();
    let (prim_tx, prim_rx) = mpsc::channel::<UserPrimitive>(1024);
    let (ind_tx, mut ind_rx) = mpsc::channel::<Indication>(sc.ind_cap.max(1));
    let (epoch, first_seq) = {
        let mut g = world.inner.lock().unwrap();
        g.inbox_tx[i] = Some(inbox_tx);
        g.prim_tx[i] = Some(prim_tx);
        g.down[i] = false;
        // sequence numbers are not re-used across a restart
        (g.epoch[i], e.seq0 + g.put_count[i])
    };
    let transport = SimTransport { world: world.clone(), ent: i, epoch, inbox: inbox_rx };
    let peers: Vec<EntityID> = (0..nent).filter(|j| *j != i).map(|j| world.entity_id(j)).collect();
    let mut tmap: HashMap<Vec<EntityID>, Box<dyn PDUTransport + Send>> = HashMap::new();
    tmap.insert(peers, Box::new(transport));
    let fs = Arc::new(SimFs::new(&world.root.join(format!("jail/e{}", i)), world, i));
    // per-peer configuration (round 7): when the entity's first sequence number is odd, its configuration
    // is registered under the id of every peer and the daemon's *default* configuration is a decoy with
    // twice the segment size and the closure flag inverted - any lookup under the wrong key (the local
    // id, a transaction's sequence number) then shows as a property violation (C07 segment size, C18)
    let (per_peer, default_cfg) = if e.seq0 % 2 == 1 {
        let mut m = HashMap::new();
        for j in (0..nent).filter(|j| *j != i) {
            m.insert(world.entity_id(j), entity_config(e));
        }
        let mut decoy = entity_config(e);
        decoy.file_size_segment = e.seg.saturating_mul(2);
        decoy.closure_requested = !e.closure;
        (m, decoy)
    } else {
        (HashMap::new(), entity_config(e))
    };
    let mut daemon = Daemon::new(world.entity_id(i), make_id(sc.idw, first_seq), tmap, fs, per_peer, default_cfg, prim_rx, ind_tx);
    let w = world.clone();
    let h = tokio::spawn(async move {
        let r = daemon.manage_transactions().await;
        w.note(format!("daemon {} ended: {:?}", i, r.map_err(|e| e.to_string())));
    });
    world.inner.lock().unwrap().daemon_handles[i] = Some(h);
    let w = world.clone();
    // ends by itself when the daemon and its transactions are gone
    tokio::spawn(async move {
        while let Some(ind) = ind_rx.recv().await {
            if w.epoch_of(i) == epoch {
                w.indication(i, ind);
            }
            // a stalled node's user does not read its indications either (the bounded indication
            // channel fills; nothing may get lost)
            loop {
                let until = { w.inner.lock().unwrap().stalled_until[i] };
                let now = w.now_us();
                if until > now {
                    tokio::time::sleep(Duration::from_micros(until - now)).await;
                } else {
                    break;
                }
            }
        }
    });
}

/// the entity's process dies: daemon, transport and transactions vanish, files stay
fn crash_entity(world: &Arc<World>, ent: usize) {
    let h = {
        let mut g = world.inner.lock().unwrap();
        if ent >= g.down.len() || !world.sc.ents[ent].real || g.down[ent] {
            return;
        }
        g.down[ent] = true;
        g.epoch[ent] += 1;
        g.inbox_tx[ent] = None;
        g.prim_tx[ent] = None;
        g.counts.crash += 1;
        world.push(&mut g, EvKind::Crash { ent });
        g.daemon_handles[ent].take()
    };
    if let Some(h) = h {
        // dropping the Daemon aborts its transaction tasks (hook H3 in the repository)
        h.abort();
    }
}

fn restart_entity(world: &Arc<World>, ent: usize) {
    {
        let mut g = world.inner.lock().unwrap();
        if ent >= g.down.len() || !g.down[ent] {
            return;
        }
        g.counts.restart += 1;
        world.push(&mut g, EvKind::Restart { ent });
    }
    start_daemon(world, ent);
}

fn entity_config(e: &crate::scenario::Ent) -> EntityConfig {
    EntityConfig {
        fault_handler_override: e
            .handlers
            .iter()
            .map(|(c, a)| (cond_from(*c), action_h_from(*a)))
            .collect(),
        file_size_segment: e.seg,
        default_transaction_max_count: e.limit,
        inactivity_timeout: e.t_inact,
        ack_timeout: e.t_ack,
        nak_timeout: e.t_nak,
        crc_flag: if e.crc { CRCFlag::Present } else { CRCFlag::NotPresent },
        closure_requested: e.closure,
        checksum_type: if e.null_cksum { ChecksumType::Null } else { ChecksumType::Modular },
        nak_procedure: if e.nak_immediate {
            NakProcedure::Immediate(Duration::from_millis(e.nak_delay_ms))
        } else {
            NakProcedure::Deferred(Duration::from_millis(e.nak_delay_ms))
        },
    }
}

pub fn auto_horizon_us(sc: &Scenario) -> u64 {
    if sc.horizon_ms > 0 {
        return sc.horizon_ms * 1000;
    }
    let mut h = 0u64;
    for e in &sc.ents {
        let ladder = (e.limit as u64 + 1) * (e.t_inact + e.t_ack + e.t_nak).max(1) as u64;
        h = h.max(ladder);
    }
    // transfer ladder + cancel ladder at both ends + reaping, in seconds, safety factor 2
    let mut last = 0u64;
    fn trig_time(t: &Trigger) -> u64 {
        match t {
            Trigger::At(x) => *x,
            Trigger::Plus(b, us) => trig_time(b) + us,
            _ => 0,
        }
    }
    for e in &sc.script {
        let t = match e {
            Entry::User { at, .. } => trig_time(at),
            Entry::Inject { at, delay_us, .. } => trig_time(at) + delay_us,
            Entry::Blackout { from, until, .. } => trig_time(from).max(trig_time(until)),
            Entry::ClockJump { at, us } => trig_time(at) + us,
            Entry::Stall { at, us, .. } => trig_time(at) + us,
            Entry::Fault { act: Act::Delay { us }, .. } => *us,
            Entry::Fault { act: Act::Dup { n, gap_us }, .. } => *n as u64 * gap_us,
            _ => 0,
        };
        last = last.max(t);
    }
    for p in &sc.puts {
        last = last.max(trig_time(&p.at));
    }
    // link time for the largest file at the configured serialisation rate
    let mut link = 0u64;
    for p in &sc.puts {
        if let Some(f) = &p.file {
            let seg = sc.ents[p.src].seg.max(1) as u64;
            let pdus = f.size / seg + 4;
            link = link.max(pdus * (sc.ser_us + sc.ser_ns_byte * (seg + 32) / 1000) * 3);
        }
    }
    last + link + (4 * h + 6) * 1_000_000
}

/// Execute one scenario to completion in the calling thread and return its recorded history.
/// Execute one scenario. A run that the wall-clock guard had to cut is executed once more under a
/// much longer limit; only a run that is cut again is returned as cut (step budget flag set).
pub fn run(sc: &Scenario, root: &Utf8PathBuf, opts: &RunOpts) -> RunRecord {
    let confirmed_before = GUARD_CUTS.load(std::sync::atomic::Ordering::Relaxed) > 0;
    let (first, confirm) = if confirmed_before { (GUARD_TICKS_AFTER_A_CUT, GUARD_TICKS_CONFIRM_AFTER_A_CUT) } else { (GUARD_TICKS, GUARD_TICKS_CONFIRM) };
    let (rec, cut) = run_inner(sc, root, opts, first);
    if !cut {
        return rec;
    }
    let (rec2, cut2) = run_inner(sc, root, opts, confirm);
    if cut2 {
        GUARD_CUTS.fetch_add(1, std::sync::atomic::Ordering::Relaxed);
    }
    rec2
}

fn run_inner(sc: &Scenario, root: &Utf8PathBuf, opts: &RunOpts, guard_limit: u64) -> (RunRecord, bool) {
    let sc = Arc::new(sc.clone());
    PANICS.with(|p| p.borrow_mut().clear());
    PUT_REPLIES.with(|r| r.borrow_mut().clear());
    let _ = std::fs::remove_dir_all(root);
    std::fs::create_dir_all(root.join("jail")).expect("tmpfs");

    // sentinel next to the roots
    let secret = b"TOP-SECRET-SENTINEL-0123456789abcdef".to_vec();
    std::fs::write(root.join("jail/secret"), &secret).unwrap();
    std::fs::write(root.join("jail/victim"), b"victim-content").unwrap();
    std::fs::create_dir_all(root.join("jail/dropzone")).unwrap();

    let nent = sc.ents.len();
    let mut sources: Vec<Option<Arc<Vec<u8>>>> = vec![];
    for i in 0..nent {
        std::fs::create_dir_all(root.join(format!("jail/e{}", i))).unwrap();
        // sibling whose name extends the root's name
        std::fs::create_dir_all(root.join(format!("jail/e{}x", i))).unwrap();
    }
    for p in &sc.pre {
        let path = root.join(format!("jail/e{}", p.ent)).join(&p.path);
        match &p.file {
            None => {
                std::fs::create_dir_all(&path).unwrap();
            }
            Some(f) => {
                if let Some(par) = path.parent() {
                    let _ = std::fs::create_dir_all(par);
                }
                std::fs::write(&path, content::gen(f)).unwrap();
            }
        }
    }
    for p in &sc.puts {
        match &p.file {
            Some(f) if sc.ents[p.src].real => {
                let data = content::gen(f);
                let path = root.join(format!("jail/e{}", p.src)).join(&p.src_name);
                if let Some(par) = path.parent() {
                    let _ = std::fs::create_dir_all(par);
                }
                // ignore failure: hostile names are part of some scenarios
                let _ = std::fs::write(&path, &data);
                sources.push(Some(Arc::new(data)));
            }
            Some(f) => sources.push(Some(Arc::new(content::gen(f)))),
            None => sources.push(None),
        }
    }

    let fs_initial: Vec<Vec<(String, Option<Vec<u8>>)>> =
        (0..nent).map(|i| snapshot_tree(root.join(format!("jail/e{}", i)).as_std_path())).collect();
    let jail_before = jail_digest(root, nent);

    // direct calls of filestore operations by a local user (script entries `fsfault` whose op is
    // "call:<action>:<hex first name>:<hex second name>"): executed on the entity's filestore before
    // the exchange starts; what they may touch is judged by the sentinel digest like everything else
    for e in sc.script.iter() {
        if let Entry::FsFault { ent, op, .. } = e {
            if let Some(rest) = op.strip_prefix("call:") {
                let parts: Vec<&str> = rest.split(':').collect();
                if parts.len() == 3 && *ent < nent {
                    let action: u8 = parts[0].parse().unwrap_or(255);
                    let dec = |h: &str| crate::scenario::unhex(h).ok().and_then(|b| String::from_utf8(b).ok()).unwrap_or_default();
                    let root_s = root.to_string();
                    let sub = |n: String| n.replace("{ROOTX}", &format!("{}/jail/e{}x", root_s, ent)).replace("{ROOT}", &format!("{}/jail/e{}", root_s, ent)).replace("{JAIL}", &format!("{}/jail", root_s));
                    let (first, second) = (sub(dec(parts[1])), sub(dec(parts[2])));
                    direct_filestore_call(&root.join(format!("jail/e{}", ent)), action, &first, &second);
                }
            }
        }
    }

    let rt = tokio::runtime::Builder::new_current_thread()
        .enable_time()
        .start_paused(true)
        .rng_seed(tokio::runtime::RngSeed::from_bytes(&sc.rt_seed.to_le_bytes()))
        .build()
        .expect("runtime");

    let horizon_us = auto_horizon_us(&sc);

    let (world, probes, daemon_alive, end_vt, cut_by_guard) = rt.block_on(async {
        let t0 = Instant::now();
        let mut blackouts = vec![];
        let mut pending = vec![];
        for e in sc.script.iter() {
            match e {
                Entry::Blackout { src, dst, from, until } => {
                    let idx = blackouts.len();
                    blackouts.push(BlackoutSt { src: *src, dst: *dst, on: false });
                    pending.push(Pending { trig: from.clone(), act: Action::Blackout { idx, on: true } });
                    if *until != Trigger::Never {
                        pending.push(Pending {
                            trig: until.clone(),
                            act: Action::Blackout { idx, on: false },
                        });
                    }
                }
                Entry::User { ent, op, put, at } => pending.push(Pending {
                    trig: at.clone(),
                    act: Action::User { ent: *ent, op: *op, put: *put },
                }),
                Entry::Inject { src, dst, what, at, delay_us } => pending.push(Pending {
                    trig: at.clone(),
                    act: Action::Inject { src: *src, dst: *dst, what: what.clone(), delay_us: *delay_us },
                }),
                Entry::ClockJump { at, us } => {
                    pending.push(Pending { trig: at.clone(), act: Action::ClockJump { us: *us } })
                }
                Entry::Stall { ent, at, us } => {
                    pending.push(Pending { trig: at.clone(), act: Action::Stall { ent: *ent, us: *us } })
                }
                Entry::Crash { ent, at } => pending.push(Pending { trig: at.clone(), act: Action::Crash { ent: *ent } }),
                Entry::Restart { ent, at } => pending.push(Pending { trig: at.clone(), act: Action::Restart { ent: *ent } }),
                Entry::Fault { .. } | Entry::FsFault { .. } => {}
            }
        }
        for (i, p) in sc.puts.iter().enumerate() {
            pending.push(Pending { trig: p.at.clone(), act: Action::IssuePut { put: i } });
        }
        let dest_paths = sc
            .puts
            .iter()
            .map(|p| {
                if sc.ents[p.dst].real && !p.dst_name.is_empty() && !p.dst_name.contains('{') {
                    // the harness's own notion of where an honest destination name lives
                    Some(root.join(format!("jail/e{}", p.dst)).join(&p.dst_name).into_std_path_buf())
                } else {
                    None
                }
            })
            .collect();
        let world = Arc::new(World {
            sc: sc.clone(),
            t0,
            inner: Mutex::new(Inner {
                events: Vec::with_capacity(256),
                dir_n: HashMap::new(),
                kind_n: HashMap::new(),
                ind_n: HashMap::new(),
                sent: HashMap::new(),
                blackouts,
                pending,
                timed: BinaryHeap::new(),
                timed_acts: HashMap::new(),
                heaps: (0..nent).map(|_| BinaryHeap::new()).collect(),
                order: 0,
                inbox_tx: (0..nent).map(|_| None).collect(),
                prim_tx: (0..nent).map(|_| None).collect(),
                puts: sources
                    .iter()
                    .map(|s| PutInfo { predicted: (0, 0), actual: None, source: s.clone(), issued: false })
                    .collect(),
                put_count: vec![0; nent],
                stalled_until: vec![0; nent],
                counts: FaultCounts::default(),
                fs_calls: HashMap::new(),
                steps: 0,
                step_budget: opts.step_budget,
                step_budget_hit: false,
                sample_puts: opts.sample_puts,
                dest_paths,
                ser_block_until: vec![0; nent],
                epoch: vec![0; nent],
                down: vec![false; nent],
                daemon_handles: (0..nent).map(|_| None).collect(),
            }),
            link_notify: (0..nent).map(|_| Notify::new()).collect(),
            sched_notify: Notify::new(),
            root: root.clone(),
            live: std::env::var("VERIF_LIVE").is_ok(),
            guard_ticks: std::sync::atomic::AtomicU64::new(0),
            guard_abort: std::sync::atomic::AtomicBool::new(false),
            guard_notify: Notify::new(),
            guard_limit,
        });

        start_ticker();
        {
            let mut lw = LIVE_WORLDS.lock().unwrap();
            lw.retain(|w| w.strong_count() > 0);
            lw.push(Arc::downgrade(&world));
        }
        // entities
        let mut aux: Vec<JoinHandle<()>> = vec![];
        for (i, e) in sc.ents.iter().enumerate() {
            // link dispatcher for this destination
            {
                let w = world.clone();
                aux.push(tokio::spawn(async move {
                    loop {
                        let next = {
                            let g = w.inner.lock().unwrap();
                            g.heaps[i].peek().map(|r| r.0.at)
                        };
                        let now = w.now_us();
                        match next {
                            None => w.link_notify[i].notified().await,
                            Some(t) if t <= now => {
                                let (item, tx) = {
                                    let mut g = w.inner.lock().unwrap();
                                    (g.heaps[i].pop().map(|r| r.0), g.inbox_tx[i].clone())
                                };
                                if let Some(it) = item {
                                    match tx {
                                        Some(tx) => {
                                            let _ = tx.send((it.src, it.send_seq, it.bytes));
                                        }
                                        // the entity is down: the datagram is lost
                                        None => w.note(format!("datagram (send seq {}) for entity {} lost: entity down", it.send_seq, i)),
                                    }
                                }
                            }
                            Some(t) => {
                                tokio::select! {
                                    _ = tokio::time::sleep(Duration::from_micros(t - now)) => {}
                                    _ = w.link_notify[i].notified() => {}
                                }
                            }
                        }
                    }
                }));
            }
            if e.real {
                start_daemon(&world, i);
            } else {
                // scripted peer: just record what arrives
                let (inbox_tx, mut inbox_rx) = mpsc::unbounded_channel();
                world.inner.lock().unwrap().inbox_tx[i] = Some(inbox_tx);
                let w = world.clone();
                aux.push(tokio::spawn(async move {
                    while let Some((src, send_seq, bytes)) = inbox_rx.recv().await {
                        let pdu = safe_decode(bytes.as_slice());
                        w.recv_event(i, src, send_seq, bytes, pdu);
                    }
                }));
            }
        }

        // scheduler: time triggers and async actions
        {
            let w = world.clone();
            aux.push(tokio::spawn(async move {
                loop {
                    // collect put replies
                    let next = {
                        let g = w.inner.lock().unwrap();
                        g.timed.peek().map(|r| r.0)
                    };
                    let now = w.now_us();
                    match next {
                        None => w.sched_notify.notified().await,
                        Some((t, id)) if t <= now => {
                            let act = {
                                let mut g = w.inner.lock().unwrap();
                                g.timed.pop();
                                g.timed_acts.remove(&id)
                            };
                            match act {
                                Some(Action::ClockJump { us }) => {
                                    {
                                        let mut g = w.inner.lock().unwrap();
                                        g.counts.clock_jump += 1;
                                        w.push(&mut g, EvKind::ClockJump { us });
                                    }
                                    tokio::time::advance(Duration::from_micros(us)).await;
                                }
                                Some(Action::Crash { ent }) => crash_entity(&w, ent),
                                Some(Action::Restart { ent }) => restart_entity(&w, ent),
                                Some(a) => {
                                    let mut g = w.inner.lock().unwrap();
                                    w.exec(&mut g, a);
                                }
                                None => {}
                            }
                        }
                        Some((t, _)) => {
                            tokio::select! {
                                _ = tokio::time::sleep(Duration::from_micros(t - now)) => {}
                                _ = w.sched_notify.notified() => {}
                            }
                        }
                    }
                }
            }));
        }

        // move At(..) triggers into the timed heap; fire At(0) ones in script order now
        {
            let mut g = world.inner.lock().unwrap();
            let mut i = 0;
            let mut timed: Vec<(u64, Action)> = vec![];
            while i < g.pending.len() {
                fn at_time(t: &Trigger) -> Option<u64> {
                    match t {
                        Trigger::At(x) => Some(*x),
                        Trigger::Plus(b, us) => at_time(b).map(|x| x + us),
                        _ => None,
                    }
                }
                if let Some(t) = at_time(&g.pending[i].trig) {
                    let p = g.pending.remove(i);
                    timed.push((t, p.act));
                } else {
                    i += 1;
                }
            }
            // puts first at equal time, then script order (stable)
            timed.sort_by_key(|(t, a)| (*t, !matches!(a, Action::IssuePut { .. })));
            for (t, a) in timed {
                if t == 0 {
                    world.exec(&mut g, a);
                } else {
                    world.schedule(&mut g, t, a);
                }
            }
        }

        // driver loop
        let mut quiet_since: Option<u64> = None;
        let mut cut_by_guard = false;
        loop {
            tokio::select! {
                _ = tokio::time::sleep(Duration::from_millis(250)) => {}
                _ = world.guard_notify.notified() => {}
            }
            if world.guard_abort.load(std::sync::atomic::Ordering::Relaxed) {
                // five seconds of wall clock and the run has not ended: a livelock at one virtual
                // instant (the clock only moves when every task is idle). Reported like an exceeded
                // step budget; what was recorded so far is kept.
                let mut g = world.inner.lock().unwrap();
                g.step_budget_hit = true;
                world.push(&mut g, EvKind::Note { msg: "run cut by the wall-clock guard: no progress of virtual time".into() });
                cut_by_guard = true;
                break;
            }
            // collect put replies
            let replies: Vec<(usize, oneshot::Receiver<TransactionID>)> =
                PUT_REPLIES.with(|r| r.borrow_mut().drain(..).collect());
            for (put, mut rx) in replies {
                match rx.try_recv() {
                    Ok(id) => {
                        let mut g = world.inner.lock().unwrap();
                        g.puts[put].actual = Some(key_of(&id));
                        world.push(&mut g, EvKind::PutId { put, id: key_of(&id) });
                    }
                    Err(oneshot::error::TryRecvError::Empty) => {
                        PUT_REPLIES.with(|r| r.borrow_mut().push((put, rx)));
                    }
                    Err(_) => {}
                }
            }
            let now = world.now_us();
            if now >= horizon_us || world.budget_hit() {
                break;
            }
            // quiescence: nothing queued on the link, no timed actions, every transaction that ever
            // reported is Terminated
            let quiet = {
                let g = world.inner.lock().unwrap();
                let link_idle = g.heaps.iter().all(|h| h.is_empty());
                let timed_idle = g.timed.is_empty();
                let mut state: HashMap<(usize, TxnKey), bool> = HashMap::new();
                let mut any = false;
                for ev in g.events.iter() {
                    match &ev.k {
                        EvKind::Ind { ent, ind: Indication::Report(r) } => {
                            any = true;
                            state.insert((*ent, key_of(&r.id)), r.state == TransactionState::Terminated);
                        }
                        EvKind::Crash { ent } => state.retain(|k, _| k.0 != *ent),
                        _ => {}
                    }
                }
                let all_put = g.puts.iter().all(|p| p.issued);
                link_idle && timed_idle && all_put && any && state.values().all(|x| *x)
            };
            if quiet {
                match quiet_since {
                    None => quiet_since = Some(now),
                    // let the reaping interval and late timers pass
                    Some(q) if now - q >= 3_000_000 => break,
                    _ => {}
                }
            } else {
                quiet_since = None;
            }
        }
        let end_vt = world.now_us();

        // probes
        let mut keys: Vec<(usize, TxnKey)> = vec![];
        {
            let g = world.inner.lock().unwrap();
            for ev in g.events.iter() {
                if let EvKind::Ind { ent, ind } = &ev.k {
                    let k = (*ent, ind_txn(ind));
                    if !keys.contains(&k) {
                        keys.push(k);
                    }
                }
            }
            for (pi, p) in g.puts.iter().enumerate() {
                if p.issued {
                    let k = (sc.puts[pi].src, p.predicted);
                    if sc.ents[k.0].real && !keys.contains(&k) {
                        keys.push(k);
                    }
                }
            }
        }
        let mut probes = vec![];
        if cut_by_guard {
            // timeouts in virtual time never fire in a livelock
            keys.clear();
        }
        for (ent, key) in keys {
            let tx = { world.inner.lock().unwrap().prim_tx[ent].clone() };
            let Some(tx) = tx else { continue };
            let (rtx, rrx) = oneshot::channel::<Report>();
            let tid = TransactionID(make_id(sc.idw, key.0), make_id(sc.idw, key.1));
            let sent = tx.try_send(UserPrimitive::Report(tid, rtx)).is_ok();
            if !sent {
                probes.push(Probe { ent, key, report: None, timed_out: true });
                continue;
            }
            match tokio::time::timeout(Duration::from_secs(2), rrx).await {
                Ok(Ok(r)) => probes.push(Probe { ent, key, report: Some((r.state, r.condition)), timed_out: false }),
                Ok(Err(_)) => probes.push(Probe { ent, key, report: None, timed_out: false }),
                Err(_) => probes.push(Probe { ent, key, report: None, timed_out: true }),
            }
        }
        let daemon_handles: Vec<Option<JoinHandle<()>>> = { world.inner.lock().unwrap().daemon_handles.drain(..).collect() };
        // (an entity that is down on purpose counts as alive: there is no daemon to have stopped)
        let daemon_alive: Vec<bool> = daemon_handles
            .iter()
            .map(|h| h.as_ref().map(|h| !h.is_finished()).unwrap_or(true))
            .collect();
        for h in daemon_handles.into_iter().flatten() {
            h.abort();
        }
        for h in aux {
            h.abort();
        }
        (world, probes, daemon_alive, end_vt, cut_by_guard)
    });
    drop(rt);

    let jail_after = jail_digest(root, nent);
    let sentinel_ok = jail_before == jail_after;
    let sentinel_note = if sentinel_ok {
        String::new()
    } else {
        format!("before={:?} after={:?}", jail_before, jail_after)
    };
    let fs_final: Vec<Vec<(String, Option<Vec<u8>>)>> =
        (0..nent).map(|i| snapshot_tree(root.join(format!("jail/e{}", i)).as_std_path())).collect();

    let world = Arc::try_unwrap(world).unwrap_or_else(|w| {
        // some aborted task still holds a reference for a moment; clone what we need
        let g = w.inner.lock().unwrap();
        World {
            sc: w.sc.clone(),
            t0: w.t0,
            inner: Mutex::new(Inner {
                events: g.events.clone(),
                dir_n: HashMap::new(),
                kind_n: HashMap::new(),
                ind_n: HashMap::new(),
                sent: HashMap::new(),
                blackouts: vec![],
                pending: vec![],
                timed: BinaryHeap::new(),
                timed_acts: HashMap::new(),
                heaps: vec![],
                order: 0,
                inbox_tx: vec![],
                prim_tx: vec![],
                puts: g.puts.clone(),
                put_count: vec![],
                stalled_until: vec![],
                counts: g.counts.clone(),
                fs_calls: HashMap::new(),
                steps: g.steps,
                step_budget: g.step_budget,
                step_budget_hit: g.step_budget_hit,
                sample_puts: false,
                dest_paths: vec![],
                ser_block_until: vec![],
                epoch: vec![],
                down: vec![],
                daemon_handles: vec![],
            }),
            link_notify: vec![],
            sched_notify: Notify::new(),
            root: w.root.clone(),
            live: false,
            guard_ticks: std::sync::atomic::AtomicU64::new(0),
            guard_abort: std::sync::atomic::AtomicBool::new(false),
            guard_notify: Notify::new(),
            guard_limit: 0,
        }
    });
    let inner = world.inner.into_inner().unwrap();
    let panics = PANICS.with(|p| p.borrow().clone());
    if !opts.keep_fs {
        let _ = std::fs::remove_dir_all(root);
    }
    (
        RunRecord {
            sc,
            events: inner.events,
            puts: inner.puts,
            probes,
            daemon_alive,
            end_vt,
            horizon_us,
            counts: inner.counts,
            panics,
            step_budget_hit: inner.step_budget_hit,
            sentinel_ok,
            sentinel_note,
            root: root.to_string(),
            fs_final,
            fs_initial,
        },
        cut_by_guard,
    )
}

/// one filestore operation called directly (as a local user of the library would)
fn direct_filestore_call(fs_root: &Utf8PathBuf, action: u8, first: &str, second: &str) {
    use cfdp_core::filestore::{FileStore, NativeFileStore};
    let fs = NativeFileStore::new(fs_root);
    let _ = std::panic::catch_unwind(std::panic::AssertUnwindSafe(|| match action {
        0 => drop(fs.create_file(first)),
        1 | 7 => drop(fs.delete_file(first)),
        2 => drop(fs.rename_file(first, second)),
        3 => drop(fs.append_file(first, second)),
        4 => drop(fs.replace_file(first, second)),
        5 => drop(fs.create_directory(first)),
        6 | 8 => drop(fs.remove_directory(first)),
        9 => drop(fs.open(first, std::fs::OpenOptions::new().create(true).write(true).truncate(true)).map(|mut f| {
            use std::io::Write;
            let _ = f.write_all(b"written-by-a-direct-open");
        })),
        10 => drop(fs.open(first, std::fs::OpenOptions::new().read(true))),
        11 => drop(fs.get_size(first)),
        _ => drop(fs.list_directory(first)),
    }));
}

/// digest of everything in <root>/jail outside the entity roots
fn jail_digest(root: &Utf8PathBuf, nent: usize) -> Vec<(String, u64)> {
    let mut out = vec![];
    let jail = root.join("jail");
    let skip: Vec<String> = (0..nent).map(|i| format!("e{}", i)).collect();
    fn walk(p: &std::path::Path, rel: String, out: &mut Vec<(String, u64)>) {
        if let Ok(rd) = std::fs::read_dir(p) {
            let mut names: Vec<_> = rd.filter_map(|e| e.ok()).collect();
            names.sort_by_key(|e| e.file_name());
            for e in names {
                let name = format!("{}/{}", rel, e.file_name().to_string_lossy());
                let path = e.path();
                if path.is_dir() {
                    out.push((format!("{}/", name), 0));
                    walk(&path, name, out);
                } else {
                    let h = std::fs::read(&path).map(|b| crate::prng::fnv(&b)).unwrap_or(1);
                    out.push((name, h));
                }
            }
        }
    }
    if let Ok(rd) = std::fs::read_dir(jail.as_std_path()) {
        let mut names: Vec<_> = rd.filter_map(|e| e.ok()).collect();
        names.sort_by_key(|e| e.file_name());
        for e in names {
            let n = e.file_name().to_string_lossy().to_string();
            if skip.contains(&n) {
                continue;
            }
            let path = e.path();
            if path.is_dir() {
                out.push((format!("{}/", n), 0));
                walk(&path, n, &mut out);
            } else {
                let h = std::fs::read(&path).map(|b| crate::prng::fnv(&b)).unwrap_or(1);
                out.push((n, h));
            }
        }
    }
    // anything created next to the run root itself
    if let Ok(rd) = std::fs::read_dir(root.as_std_path()) {
        let mut names: Vec<_> = rd.filter_map(|e| e.ok()).map(|e| e.file_name()).collect();
        names.sort();
        for n in names {
            if n != "jail" {
                out.push((format!("../{}", n.to_string_lossy()), 2));
            }
        }
    }
    out
}

pub fn snapshot_tree(p: &std::path::Path) -> Vec<(String, Option<Vec<u8>>)> {
    let mut out = vec![];
    fn walk(p: &std::path::Path, rel: String, out: &mut Vec<(String, Option<Vec<u8>>)>) {
        if let Ok(rd) = std::fs::read_dir(p) {
            let mut names: Vec<_> = rd.filter_map(|e| e.ok()).collect();
            names.sort_by_key(|e| e.file_name());
            for e in names {
                let name = if rel.is_empty() {
                    e.file_name().to_string_lossy().to_string()
                } else {
                    format!("{}/{}", rel, e.file_name().to_string_lossy())
                };
                let path = e.path();
                if path.is_dir() {
                    out.push((name.clone(), None));
                    walk(&path, name, out);
                } else {
                    out.push((name, Some(std::fs::read(&path).unwrap_or_default())));
                }
            }
        }
    }
    walk(p, String::new(), &mut out);
    out
}

thread_local! {
    static HARNESS_DECODE: std::cell::Cell<bool> = const { std::cell::Cell::new(false) };
}

/// decode for the harness's own bookkeeping (trace of injected datagrams, scripted peers): a
/// decoder panic here is not attributed to the system under test
pub fn safe_decode(bytes: &[u8]) -> Option<PDU> {
    HARNESS_DECODE.with(|h| h.set(true));
    let r = std::panic::catch_unwind(|| PDU::decode(&mut &bytes[..]).ok()).unwrap_or(None);
    HARNESS_DECODE.with(|h| h.set(false));
    r
}

pub fn install_panic_hook() {
    std::panic::set_hook(Box::new(|info| {
        if HARNESS_DECODE.with(|h| h.get()) {
            return;
        }
        let msg = if let Some(s) = info.payload().downcast_ref::<&str>() {
            s.to_string()
        } else if let Some(s) = info.payload().downcast_ref::<String>() {
            s.clone()
        } else {
            "panic".to_string()
        };
        let loc = info.location().map(|l| format!("{}:{}", l.file(), l.line())).unwrap_or_default();
        if std::thread::current().name() == Some("main") || std::env::var("VERIF_PANIC_PRINT").is_ok() {
            eprintln!("panic: {} @ {}", msg, loc);
        }
        PANICS.with(|p| p.borrow_mut().push(format!("{} @ {}", msg, loc)));
    }));
}
