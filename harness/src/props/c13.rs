//! C13: filestore requests act as CFDP defines, once, in order, reported truthfully.
//!
//! Transactions carrying request lists over a small namespace of files and directories run
//! through the real daemons (codec -> receive transaction -> NativeFileStore on tmpfs), fault free,
//! under C02-style bounded faults (must still execute, once), under C04-style re-deliveries after
//! the success report (must not execute twice) and with a filestore failure on the destination
//! (must not execute at all). Reference model: an in-memory tree with the CFDP action table.

use std::collections::BTreeMap;
use std::sync::Arc;

use cfdp_core::daemon::Indication;
use cfdp_core::pdu::{Condition, DeliveryCode, Operations};

use crate::{
    analysis::{op_of, Analysis, Violation},
    checks::{common_probes, domain_basic, safety_cross, Check, Tier, REAL_SIM, STUB_SIM},
    gen::{self, Knobs},
    oracle::{v, vv},
    prng::{mix, Rng},
    props::{file_put, pre_dir, pre_file, req, req_put},
    runner::{Ctx, Job},
    scenario::*,
};

type Tree = BTreeMap<String, Option<Vec<u8>>>;

/// the lexical normalisation the filestore applies to a name (C12): '.', '', leading '/' dropped,
/// '..' pops (never above the root)
fn norm(name: &str) -> String {
    let mut out: Vec<&str> = vec![];
    for c in name.split('/') {
        match c {
            "" | "." => {}
            ".." => {
                out.pop();
            }
            x => out.push(x),
        }
    }
    out.join("/")
}
fn parent_ok(t: &Tree, name: &str) -> bool {
    match name.rsplit_once('/') {
        None => true,
        Some((p, _)) => matches!(t.get(p), Some(None)),
    }
}
fn is_file(t: &Tree, n: &str) -> bool {
    matches!(t.get(n), Some(Some(_)))
}
fn is_dir(t: &Tree, n: &str) -> bool {
    matches!(t.get(n), Some(None))
}
fn remove_dir(t: &mut Tree, n: &str) {
    let prefix = format!("{}/", n);
    t.retain(|k, _| k != n && !k.starts_with(&prefix));
}

/// the CFDP action table: acceptable statuses (Debug form) and, on success, the effect
fn model(t: &Tree, action: u8, first: &str, second: &str) -> (Vec<&'static str>, Option<Tree>) {
    let (f, s) = (norm(first), norm(second));
    let mut n = t.clone();
    match action {
        0 => {
            if !t.contains_key(&f) && parent_ok(t, &f) && !f.is_empty() {
                n.insert(f, Some(vec![]));
                (vec!["CreateFile(Successful)"], Some(n))
            } else {
                (vec!["CreateFile(NotAllowed)"], None)
            }
        }
        1 => {
            if is_file(t, &f) {
                n.remove(&f);
                (vec!["DeleteFile(Successful)"], Some(n))
            } else {
                (vec!["DeleteFile(FileDoesNotExist)"], None)
            }
        }
        2 => {
            if !is_file(t, &f) {
                (vec!["RenameFile(OldFilenameDoesNotExist)"], None)
            } else if is_file(t, &s) {
                (vec!["RenameFile(NewFilenameAlreadyExists)"], None)
            } else if t.contains_key(&s) || !parent_ok(t, &s) || s.is_empty() {
                (vec!["RenameFile(RenameNotAllowed)"], None)
            } else {
                let c = n.remove(&f).unwrap();
                n.insert(s, c);
                (vec!["RenameFile(Successful)"], Some(n))
            }
        }
        3 => {
            if !is_file(t, &f) {
                (vec!["AppendFile(Filename1DoesNotExist)"], None)
            } else if !is_file(t, &s) {
                (vec!["AppendFile(Filename2DoesNotExist)"], None)
            } else {
                let add = t.get(&s).unwrap().clone().unwrap();
                n.get_mut(&f).unwrap().as_mut().unwrap().extend(add);
                (vec!["AppendFile(Successful)"], Some(n))
            }
        }
        4 => {
            if !is_file(t, &f) {
                (vec!["ReplaceFile(Filename1DoesNotExist)"], None)
            } else if !is_file(t, &s) {
                (vec!["ReplaceFile(Filename2DoesNotExist)"], None)
            } else {
                let c = t.get(&s).unwrap().clone();
                n.insert(f, c);
                (vec!["ReplaceFile(Successful)"], Some(n))
            }
        }
        5 => {
            if !t.contains_key(&f) && parent_ok(t, &f) && !f.is_empty() {
                n.insert(f, None);
                (vec!["CreateDirectory(Successful)"], Some(n))
            } else {
                (vec!["CreateDirectory(DirectoryCannotBeCreated)"], None)
            }
        }
        6 => {
            if is_dir(t, &f) {
                remove_dir(&mut n, &f);
                (vec!["RemoveDirectory(Successful)"], Some(n))
            } else {
                (vec!["RemoveDirectory(DirectoryDoesNotExist)"], None)
            }
        }
        7 => {
            if is_file(t, &f) {
                n.remove(&f);
                (vec!["DenyFile(Successful)"], Some(n))
            } else {
                // "delete if present": the CFDP text reads success, the repository's tests pin
                // NotAllowed; either is accepted, nothing may change
                (vec!["DenyFile(Successful)", "DenyFile(NotAllowed)"], Some(n))
            }
        }
        _ => {
            if is_dir(t, &f) {
                remove_dir(&mut n, &f);
                (vec!["DenyDirectory(Successful)"], Some(n))
            } else {
                (vec!["DenyDirectory(Successful)", "DenyDirectory(NotAllowed)"], Some(n))
            }
        }
    }
}

fn not_performed(action: u8) -> &'static str {
    match action {
        0 => "CreateFile(NotPerformed)",
        1 => "DeleteFile(NotPerformed)",
        2 => "RenameFile(NotPerformed)",
        3 => "AppendFile(NotPerformed)",
        4 => "ReplaceFile(NotPerformed)",
        5 => "CreateDirectory(NotPerformed)",
        6 => "RemoveDirectory(NotPerformed)",
        7 => "DenyFile(NotPerformed)",
        _ => "DenyDirectory(NotPerformed)",
    }
}

fn tree_of(v: &[(String, Option<Vec<u8>>)]) -> Tree {
    v.iter().cloned().collect()
}

fn tree_diff(a: &Tree, b: &Tree) -> String {
    let mut d = vec![];
    for (k, v) in a {
        match b.get(k) {
            None => d.push(format!("missing '{}'", k)),
            Some(w) if w != v => d.push(format!("'{}' is {:?}, expected {:?}", k, w.as_ref().map(|x| x.len()), v.as_ref().map(|x| x.len()))),
            _ => {}
        }
    }
    for k in b.keys() {
        if !a.contains_key(k) {
            d.push(format!("unexpected '{}'", k));
        }
    }
    d.join("; ")
}

pub fn c13(a: &Analysis) -> Vec<Violation> {
    let mut out = vec![];
    let sc = &a.rec.sc;
    // one transaction per destination entity: effects are attributable
    if sc.puts.len() != 1 {
        return out;
    }
    let pi = 0;
    let put = &sc.puts[pi];
    if !a.rec.puts[pi].issued || !sc.ents[put.dst].real {
        return out;
    }
    let Some(t) = a.put_txn(pi) else { return out };
    if t.at_dst.incarnations > 1 {
        return out; // a re-spawned transaction for late PDUs is C11's subject
    }
    let initial = tree_of(&a.rec.fs_initial[put.dst]);
    let fin = tree_of(&a.rec.fs_final[put.dst]);
    let success = t.at_dst.finished().into_iter().find(|(_, f)| f.report.condition == Condition::NoError && f.delivery_code == DeliveryCode::Complete);
    match success {
        None => {
            // (c) no successful delivery: nothing took effect
            let executed = a.rec.events.iter().filter(|e| matches!(&e.k, crate::world::EvKind::Fs { ent, op: crate::world::FsOp::Request { .. } } if *ent == put.dst)).count();
            if executed > 0 {
                out.push(v("C13", "requests_executed_without_successful_delivery", format!("txn {:?}: {} filestore request(s) executed although the receiver never reported a successful delivery", t.key, executed)));
            }
            // the only admissible difference is none at all (the destination name may not exist)
            if fin != initial {
                let any_integrity_ignore = sc.ents[put.dst].handlers.iter().any(|(_, h)| *h == 3);
                if !any_integrity_ignore {
                    out.push(v("C13", "tree_changed_without_successful_delivery", format!("txn {:?}: no successful delivery, but the receiver's filestore changed: {}", t.key, tree_diff(&initial, &fin))));
                }
            }
        }
        Some((si, f)) => {
            // expected tree: delivered file, then the requests once, in order
            let mut tree = initial.clone();
            if put.file.is_some() {
                if let Some(src) = a.rec.puts[pi].source.as_ref() {
                    tree.insert(norm(&put.dst_name), Some((**src).clone()));
                }
            }
            let got: Vec<String> = f.filestore_responses.iter().map(|r| format!("{:?}", r.action_and_status)).collect();
            if got.len() != put.reqs.len() {
                out.push(v("C13", "response_count_differs", format!("txn {:?}: {} requests, {} responses in the receiver's Finished indication", t.key, put.reqs.len(), got.len())));
            }
            let mut fail_rest = false;
            for (i, r) in put.reqs.iter().enumerate() {
                let Some(g) = got.get(i) else { break };
                if fail_rest {
                    if g != not_performed(r.action) {
                        out.push(vv("C13", "not_performed_rule_broken", format!("a{}", r.action), format!("txn {:?}: request #{} ({} '{}' '{}') follows a failed request but reports {}", t.key, i, r.action, r.first, r.second, g)));
                    }
                    continue;
                }
                let (ok, effect) = model(&tree, r.action, &r.first, &r.second);
                if !ok.contains(&g.as_str()) {
                    out.push(vv("C13", "wrong_status", format!("a{}:{}", r.action, g), format!("txn {:?}: request #{} (action {} '{}' '{}') reports {}, the CFDP action table says {:?} for the state {:?}", t.key, i, r.action, r.first, r.second, g, ok, tree.iter().map(|(k, v)| format!("{}{}", k, if v.is_none() { "/" } else { "" })).collect::<Vec<_>>())));
                }
                let failed = !g.ends_with("(Successful)");
                if failed {
                    fail_rest = true;
                } else if let Some(e) = effect {
                    tree = e;
                }
            }
            if fin != tree {
                out.push(v("C13", "tree_differs_from_model", format!("txn {:?}: after the requests {:?} the receiver's filestore differs from one in-order application: {}", t.key, put.reqs.iter().map(|r| (r.action, r.first.as_str(), r.second.as_str())).collect::<Vec<_>>(), tree_diff(&tree, &fin))));
            }
            // (b) the same responses in the Finished PDU and at the sending user
            let want: Vec<String> = got.clone();
            for s in t.at_dst.sent.iter().filter(|s| s.seq > si.seq || s.vt >= si.vt) {
                if let Some(Operations::Finished(fp)) = s.pdu.as_ref().and_then(|p| op_of(p)) {
                    if fp.condition == Condition::NoError {
                        let pg: Vec<String> = fp.filestore_response.iter().map(|r| format!("{:?}", r.action_and_status)).collect();
                        if pg != want {
                            out.push(v("C13", "finished_pdu_responses_differ", format!("txn {:?}: Finished PDU at seq {} carries {:?}, the receiving user was told {:?}", t.key, s.seq, pg, want)));
                            break;
                        }
                    }
                }
            }
            if sc.ents[put.src].real {
                for i in &t.at_src.inds {
                    if let Indication::Finished(sf) = &i.ind {
                        if sf.report.condition == Condition::NoError && sf.delivery_code == DeliveryCode::Complete {
                            let sg: Vec<String> = sf.filestore_responses.iter().map(|r| format!("{:?}", r.action_and_status)).collect();
                            if sg != want {
                                out.push(v("C13", "sender_responses_differ", format!("txn {:?}: the sending user was told {:?}, the receiving user {:?}", t.key, sg, want)));
                            }
                        }
                    }
                }
            }
        }
    }
    out
}

// ---------------------------------------------------------------------------------------------

const FILES: [&str; 4] = ["a.txt", "b.txt", "c.txt", "d1/x.txt"];
const DIRS: [&str; 3] = ["d1", "d2", "d1/sub"];

fn draw_req(rng: &mut Rng, strict: bool) -> Req {
    let action = rng.below(9) as u8;
    let file = |rng: &mut Rng| rng.pick(&["a.txt", "b.txt", "c.txt", "d1/x.txt", "d.bin", "new.txt"]).to_string();
    let dir = |rng: &mut Rng| rng.pick(&["d1", "d2", "d3", "d1/sub"]).to_string();
    let any = |rng: &mut Rng| rng.pick(&["a.txt", "b.txt", "d1", "d2", "d9/y.txt", "d1/x.txt", "d.bin", "new.txt", "d3"]).to_string();
    // one name in six is spelt differently (the same file under another spelling)
    let alias = |rng: &mut Rng, n: String| -> String {
        match rng.below(18) {
            0 => format!("/{}", n),
            1 => format!("./{}", n),
            2 => format!("d2/../{}", n),
            _ => n,
        }
    };
    let file = |rng: &mut Rng| { let n = file(rng); alias(rng, n) };
    let dir = |rng: &mut Rng| { let n = dir(rng); alias(rng, n) };
    let any = |rng: &mut Rng| { let n = any(rng); alias(rng, n) };
    match action {
        5 | 6 | 8 => req(action, &if strict { dir(rng) } else { any(rng) }, ""),
        2 | 3 | 4 => req(action, &if strict { file(rng) } else { any(rng) }, &if strict { file(rng) } else { any(rng) }),
        _ => req(action, &if strict { file(rng) } else { any(rng) }, ""),
    }
}

fn scenario(seed: u64, i: usize, kind: u8) -> Scenario {
    let mut rng = Rng::new(mix(seed ^ 0xC13A ^ kind as u64, i as u64));
    let unack = rng.chance(1, 6);
    let k = Knobs { unack: Some(unack), closure: if unack { Some(rng.chance(1, 2)) } else { None }, max_segments: 5, limit_min: 2, limit_max: 4, stale_dest: false, ..Knobs::default() };
    let mut sc = gen::pair_cfg(&mut rng, &k);
    // initial state of the receiver's filestore
    for f in FILES {
        if f.starts_with("d1/") {
            continue;
        }
        if rng.chance(2, 3) {
            sc.pre.push(pre_file(1, f, rng.range(0, 30), rng.next_u64()));
        }
    }
    let mut d1 = false;
    for d in DIRS {
        if d == "d1/sub" {
            if d1 && rng.chance(1, 3) {
                sc.pre.push(pre_dir(1, d));
            }
            continue;
        }
        if rng.chance(1, 2) {
            sc.pre.push(pre_dir(1, d));
            if d == "d1" {
                d1 = true;
                if rng.chance(1, 2) {
                    sc.pre.push(pre_file(1, "d1/x.txt", 9, rng.next_u64()));
                }
            }
        }
    }
    let strict = kind != 1;
    let n = rng.range(0, 6);
    let with_file = !rng.chance(1, 4);
    // state-aware drawing: two thirds of the requests are chosen so that their preconditions hold
    // in the model state reached so far (otherwise most lists die at their first request)
    let mut tree: Tree = sc.pre.iter().map(|p| (p.path.clone(), p.file.as_ref().map(|f| crate::content::gen(f)))).collect();
    if with_file {
        tree.insert("d.bin".into(), Some(vec![1]));
    }
    let mut reqs: Vec<Req> = vec![];
    for _ in 0..n {
        let want_ok = rng.chance(2, 3);
        let mut r = draw_req(&mut rng, strict);
        for _ in 0..12 {
            let (st, _) = model(&tree, r.action, &r.first, &r.second);
            if !want_ok || st[0].ends_with("(Successful)") {
                break;
            }
            r = draw_req(&mut rng, strict);
        }
        let (st, eff) = model(&tree, r.action, &r.first, &r.second);
        if st[0].ends_with("(Successful)") && st.len() == 1 {
            if let Some(e) = eff {
                tree = e;
            }
        }
        reqs.push(r);
    }
    if !with_file {
        sc.puts.push(req_put(unack, reqs));
    } else {
        let seg = sc.ents[0].seg as u64;
        let mut p = file_put(unack, *rng.pick(&[0, 1, seg, 2 * seg + 1]), Content::Text, rng.next_u64());
        p.reqs = reqs;
        sc.puts.push(p);
    }
    let prof = crate::checks::estimate_profile(&sc);
    match kind {
        2 if !unack => {
            // bounded faults: must still execute, once
            sc.script = gen::admissible_script(&mut rng, &sc, &prof, 0, 1);
        }
        3 if !unack => {
            // re-deliveries after the success report: must not execute twice
            sc.script.push(Entry::Fault { src: 0, dst: 1, sel: Sel::Kind(Kind::AckFin, 0), act: Act::Drop });
            if rng.chance(1, 2) {
                sc.script.push(Entry::Fault { src: 1, dst: 0, sel: Sel::Kind(Kind::AckEof, 0), act: Act::Drop });
            }
            for _ in 0..rng.range(1, 3) {
                sc.script.push(Entry::Inject { src: 0, dst: 1, what: What::Copy { src: 0, dst: 1, n: rng.below(prof.fwd.len() as u64) as u32 }, at: Trigger::AfterInd { ent: 1, kind: IndKind::Finished, k: 0 }, delay_us: *rng.pick(&[0u64, 1000, 400_000]) });
            }
        }
        4 => {
            // the destination cannot be written: the delivery fails, nothing may be executed
            sc.script.push(Entry::FsFault { ent: 1, op: "open".into(), nth: 0 });
        }
        5 if !unack => {
            // cancelled at the receiver in mid-transfer while the rest of the exchange (and the
            // answer to its NAK) still arrives: unless the delivery had succeeded before, nothing runs
            sc.ser_us = 1000;
            if rng.chance(2, 3) {
                sc.script.push(Entry::Fault { src: 0, dst: 1, sel: Sel::Nth(rng.below(prof.fwd.len().max(1) as u64) as u32), act: Act::Drop });
            }
            let at = Trigger::AfterPdu { src: 0, dst: 1, n: rng.below(prof.fwd.len() as u64 + 1) as u32 };
            sc.script.push(Entry::User { ent: 1, op: UserOp::Cancel, put: 0, at });
        }
        _ => {}
    }
    sc
}

fn build(_ctx: &Ctx, tier: Tier, seed: u64) -> Vec<Job<'static>> {
    let n = match tier {
        Tier::Quick => 20_000,
        Tier::Thorough => 400_000,
    };
    let labels = [
        "fault free, well-typed names (strict: statuses and tree equal the model)",
        "fault free, any name in any role (directories named in file actions, missing parents, the delivered file itself)",
        "bounded loss/dup/delay (C02 envelope): requests still run, once",
        "re-deliveries after the success report (C04 window): requests do not run again",
        "filestore failure on the destination name: the delivery fails, nothing runs",
        "cancel at the receiver in mid-transfer, the rest of the exchange still arriving: nothing runs unless the delivery had succeeded",
    ];
    let _ = Arc::new(0);
    (0..6u8).map(|k| Job { label: labels[k as usize].into(), n: if k == 0 || k == 1 { n } else { n / 2 }, gen: Box::new(move |i| scenario(seed, i, k)) }).collect()
}

fn probes(a: &Analysis, out: &mut Vec<&'static str>) {
    common_probes(a, out);
    let mut nreq = 0;
    for e in &a.rec.events {
        if let crate::world::EvKind::Fs { op: crate::world::FsOp::Request { resp, .. }, .. } = &e.k {
            nreq += 1;
            out.push(if resp.action_and_status.is_fail() { "request_failed" } else { "request_succeeded" });
        }
    }
    if nreq >= 3 {
        out.push("three_or_more_requests_executed");
    }
    for t in a.txns.values() {
        for (_, f) in t.at_dst.finished() {
            if f.filestore_responses.iter().any(|r| format!("{:?}", r.action_and_status).contains("NotPerformed")) {
                out.push("not_performed_reported");
            }
        }
    }
    if a.rec.counts.fs_fault > 0 {
        out.push("filestore_fault_injected");
    }
    out.sort();
    out.dedup();
}

pub fn check() -> Check {
    Check {
        prop: "C13",
        level: "exploration",
        rule: "one run = one transaction (file transfer or request-only) carrying 0..6 filestore requests over the namespace {a.txt, b.txt, c.txt, d1/x.txt, d.bin, new.txt} x {d1, d2, d3, d1/sub} with a seeded initial filestore, through two real daemons: fault free (well-typed names / any name in any role), inside the C02 envelope, with re-deliveries in the C04 window, and with an injected failure on the destination name; the receiver's filestore after the run and every response list are compared with an in-memory reference model; non-trivial = a request was executed, a fault fired or a PDU was injected; distinct = distinct history fingerprint",
        assumptions: vec![
            "deny-file / deny-directory on an absent target: 'successful' (CFDP text) and 'not allowed' (pinned by the repository's own tests) are both accepted, nothing may change and the fail-the-rest rule follows the reported status",
            "remove-directory removes recursively; a directory named in a file action simply fails the action's own existence test",
            "one transaction per run, only the first incarnation of the receive transaction",
        ],
        oracle: Box::new(c13),
        cross: Box::new(safety_cross),
        probes: Box::new(probes),
        build,
        admissible: Box::new(domain_basic),
        real: REAL_SIM.to_vec(),
        stub: STUB_SIM.to_vec(),
    }
}

pub fn selftest(seed: u64, i: usize) -> Scenario {
    scenario(seed, i, (i / 10 % 5) as u8)
}
