//! C17: limit faults fire after exactly the configured expirations; the configured handler runs.
//!
//! Virtual time is exact, so the comparisons need no tolerance. The link has no serialisation
//! time in these scenarios (a PDU is logged at the instant the transaction created it) and no user
//! prompt / suspend / resume, clock jump or stall is scripted (each legitimately re-arms a timer).

use std::sync::Arc;

use cfdp_core::daemon::Indication;
use cfdp_core::pdu::{Condition, DeliveryCode, Operations};
use cfdp_core::transaction::TransactionState;

use crate::{
    analysis::{fd_range, op_of, Analysis, IntervalSet, Side, Txn, Violation},
    checks::{common_probes, domain_basic, safety_cross, Check, Tier, REAL_SIM, STUB_SIM},
    content,
    gen::{self, Knobs},
    oracle::{v, vv},
    pdus::Hdr,
    prng::{mix, Rng},
    runner::{Ctx, Job},
    scenario::*,
    world::kind_of,
};

const SEC: u64 = 1_000_000;

fn handler_of(sc: &Scenario, ent: usize, c: Condition) -> u8 {
    // 0 = unset (cancel by default), 1 cancel, 2 suspend, 3 ignore, 4 abandon
    let code = c as u8;
    sc.ents[ent].handlers.iter().find(|(cc, _)| *cc == code).map(|(_, a)| *a).unwrap_or(0)
}

pub fn c17(a: &Analysis) -> Vec<Violation> {
    let mut out = vec![];
    let sc = &a.rec.sc;
    if sc.ser_us != 0 || sc.ser_ns_byte != 0 {
        return out;
    }
    if sc.script.iter().any(|e| matches!(e, Entry::ClockJump { .. } | Entry::Stall { .. } | Entry::User { op: UserOp::Suspend | UserOp::Resume | UserOp::PromptNak | UserOp::PromptKa | UserOp::Cancel, .. })) {
        return out;
    }
    for t in a.txns.values() {
        for (side, ent, sender) in [(&t.at_src, Some(t.src_ent), true), (&t.at_dst, t.dst_ent, false)] {
            let Some(ent) = ent else { continue };
            if !sc.ents[ent].real || !side.existed {
                continue;
            }
            side_check(a, t, side, ent, sender, &mut out);
        }
    }
    out
}

fn side_check(a: &Analysis, t: &Txn, side: &Side, ent: usize, sender: bool, out: &mut Vec<Violation>) {
    let sc = &a.rec.sc;
    let e = &sc.ents[ent];
    let limit = e.limit as u64;
    // first incarnation only
    let end = side.inds.iter().find(|i| matches!(&i.ind, Indication::Report(r) if r.state == TransactionState::Terminated)).map(|i| i.seq).unwrap_or(u64::MAX);
    let role = if sender { "sender" } else { "receiver" };
    let mut seen: Vec<Condition> = vec![];
    for fi in side.inds.iter().filter(|i| i.seq < end) {
        let Indication::Fault(f) = &fi.ind else { continue };
        let c = f.condition;
        let first_of_kind = !seen.contains(&c);
        seen.push(c);
        let tf = fi.vt;
        // within one virtual instant the log order proves nothing (the fault may have been computed
        // before a PDU pulled at the same instant was processed): only strictly earlier deliveries
        // certainly re-armed a timer
        let recvd_before: Vec<_> = side.recvd.iter().filter(|r| r.vt < tf).collect();
        match c {
            Condition::PositiveLimitReached => {
                let t_c = e.t_ack.max(0) as u64 * SEC;
                // the guarded PDU: EOF (sender) / Finished (receiver), first generation = the PDUs
                // carrying the condition the transaction had before this fault
                let kind = if sender { Kind::Eof } else { Kind::Fin };
                let g: Vec<_> = side
                    .sent
                    .iter()
                    .filter(|s| s.kind == kind && s.vt <= tf)
                    .filter(|s| match s.pdu.as_ref().and_then(|p| op_of(p)) {
                        Some(Operations::EoF(x)) => x.condition == Condition::NoError,
                        Some(Operations::Finished(x)) => x.condition != Condition::PositiveLimitReached,
                        _ => false,
                    })
                    .collect();
                // "unanswered": an acknowledgement of the guarded PDU that was delivered after its
                // last transmission (and well before the fault) had stopped the count; a limit fault
                // declared all the same counted expirations that were answered
                if let Some(last) = g.last() {
                    let want_dir = if sender { cfdp_core::pdu::PDUDirective::EoF } else { cfdp_core::pdu::PDUDirective::Finished };
                    let answered = side.recvd.iter().any(|r| {
                        r.vt > last.vt + 1_000
                            && r.vt + 1_000 < tf
                            && matches!(r.pdu.as_ref().and_then(|p| op_of(p)), Some(Operations::Ack(a)) if a.directive == want_dir && (!sender || a.condition == Condition::NoError))
                    });
                    if answered {
                        out.push(vv("C17", "limit_fault_although_answered", format!("{}/PositiveLimitReached", role), format!("txn {:?}: {} declared PositiveLimitReached at {}us although the acknowledgement of its last {} (sent at {}us) had been delivered in between", t.key, role, tf, kind.name(), last.vt)));
                    }
                }
                if let Some(first) = g.first() {
                    if tf < first.vt + limit * t_c {
                        out.push(vv("C17", "limit_fault_too_early", format!("{}/PositiveLimitReached", role), format!("txn {:?}: {} declared PositiveLimitReached at {}us, {}us after the first {} transmission; limit {} x ack timeout {}s", t.key, role, tf, tf - first.vt, kind.name(), limit, e.t_ack)));
                    }
                    if first_of_kind {
                        if g.len() as u64 != limit {
                            out.push(vv("C17", "wrong_number_of_transmissions", format!("{}/PositiveLimitReached/{}", role, if (g.len() as u64) < limit { "fewer" } else { "more" }), format!("txn {:?}: {} transmitted {} {} times before declaring PositiveLimitReached, limit {}", t.key, role, kind.name(), g.len(), limit)));
                        }
                        for w in g.windows(2) {
                            if w[1].vt < w[0].vt + t_c {
                                out.push(vv("C17", "retransmission_before_expiry", format!("{}/{}", role, kind.name()), format!("txn {:?}: {} retransmitted {} at {}us, only {}us after the previous one (ack timeout {}s)", t.key, role, kind.name(), w[1].vt, w[1].vt - w[0].vt, e.t_ack)));
                            }
                        }
                    }
                } else {
                    out.push(vv("C17", "limit_fault_without_guarded_pdu", format!("{}/PositiveLimitReached", role), format!("txn {:?}: {} declared PositiveLimitReached at {}us without ever transmitting {}", t.key, role, tf, kind.name())));
                }
            }
            Condition::NakLimitReached if !sender => {
                let t_c = e.t_nak.max(0) as u64 * SEC;
                // rounds = instants at which NAK PDUs went out; a generation restarts at the first
                // round that follows a delivery of new bytes
                let mut rounds: Vec<u64> = side.sent.iter().filter(|s| s.kind == Kind::Nak && s.vt < tf).map(|s| s.vt).collect();
                rounds.dedup();
                let mut held = IntervalSet::default();
                let mut new_bytes_at: Vec<u64> = vec![];
                for r in &recvd_before {
                    if let Some((x, y, _)) = r.pdu.as_ref().and_then(|p| fd_range(p)) {
                        if held.insert(x, y) > 0 {
                            new_bytes_at.push(r.vt);
                        }
                    }
                }
                let last_new = new_bytes_at.last().copied();
                let gen_rounds: Vec<u64> = match last_new {
                    // new bytes delivered at the same instant as a round may or may not have been
                    // seen by it: that round is kept in the generation only if strictly later
                    Some(tn) => rounds.iter().copied().filter(|r| *r > tn).collect(),
                    None => rounds.clone(),
                };
                // the timer may have been (re)armed by a round at the very instant of the last new
                // bytes as well: the weakest admissible start is the first round at or after them
                let start = match last_new {
                    Some(tn) => rounds.iter().copied().find(|r| *r >= tn),
                    None => rounds.first().copied(),
                };
                match start {
                    Some(st) => {
                        if tf < st + limit * t_c {
                            out.push(vv("C17", "limit_fault_too_early", "receiver/NakLimitReached".into(), format!("txn {:?}: receiver declared NakLimitReached at {}us, {}us after the NAK round that followed the last new data ({}us); limit {} x nak timeout {}s", t.key, tf, tf - st, st, limit, e.t_nak)));
                        }
                    }
                    None => out.push(vv("C17", "limit_fault_without_guarded_pdu", "receiver/NakLimitReached".into(), format!("txn {:?}: receiver declared NakLimitReached at {}us without having sent a NAK", t.key, tf))),
                }
                if first_of_kind {
                    // after the last delivery of anything nothing but expirations drives the rounds
                    let last_any = recvd_before.last().map(|r| r.vt).unwrap_or(0);
                    let tail: Vec<u64> = rounds.iter().copied().filter(|r| *r > last_any).collect();
                    for w in tail.windows(2) {
                        if w[1] < w[0] + t_c {
                            out.push(vv("C17", "retransmission_before_expiry", "receiver/nak".into(), format!("txn {:?}: receiver repeated its NAK at {}us, only {}us after the previous round (nak timeout {}s)", t.key, w[1], w[1] - w[0], e.t_nak)));
                        }
                    }
                    if gen_rounds.len() as u64 > limit + 1 || (gen_rounds.len() as u64) < limit.saturating_sub(1) {
                        out.push(vv("C17", "wrong_number_of_transmissions", format!("receiver/NakLimitReached/{}", if (gen_rounds.len() as u64) < limit { "fewer" } else { "more" }), format!("txn {:?}: receiver sent {} NAK rounds since the last new data before declaring NakLimitReached, limit {}", t.key, gen_rounds.len(), limit)));
                    }
                }
            }
            Condition::InactivityDetected => {
                let t_c = e.t_inact.max(0) as u64 * SEC;
                // last thing that re-armed the inactivity timer: a PDU delivered to the transaction;
                // for the sender also a NAK answer it emitted; the creation of the transaction
                let mut tp = side.inds.first().map(|i| i.vt).unwrap_or(0);
                if let Some(r) = recvd_before.last() {
                    tp = tp.max(r.vt);
                }
                if sender {
                    if let Some(s) = side.sent.iter().filter(|s| s.kind == Kind::Fd && s.vt < tf).last() {
                        tp = tp.max(s.vt);
                    }
                }
                if tf < tp + limit * t_c {
                    out.push(vv("C17", "limit_fault_too_early", format!("{}/InactivityDetected", role), format!("txn {:?}: {} declared InactivityDetected at {}us, {}us after the last PDU it was handed ({}us); limit {} x inactivity timeout {}s", t.key, role, tf, tf - tp, tp, limit, e.t_inact)));
                }
            }
            _ => {}
        }
        // (d) the configured handler runs
        if first_of_kind {
            handler_check(a, t, side, ent, sender, c, fi.seq, tf, end, out);
        }
    }
}

#[allow(clippy::too_many_arguments)]
fn handler_check(a: &Analysis, t: &Txn, side: &Side, ent: usize, sender: bool, c: Condition, fseq: u64, tf: u64, end: u64, out: &mut Vec<Violation>) {
    let sc = &a.rec.sc;
    let role = if sender { "sender" } else { "receiver" };
    let h = handler_of(sc, ent, c);
    let _ = fseq;
    let at_tf = |pred: &dyn Fn(&Indication) -> bool| side.inds.iter().any(|i| i.vt == tf && pred(&i.ind));
    let unack = side.sent.iter().chain(std::iter::empty()).filter_map(|s| s.pdu.as_ref()).chain(side.recvd.iter().filter_map(|r| r.pdu.as_ref())).any(|p| p.header.transmission_mode == cfdp_core::pdu::TransmissionMode::Unacknowledged);
    let tag = format!("{}/{:?}", role, c);
    match h {
        4 => {
            // abandon: stops at once, no further PDU
            if !at_tf(&|i| matches!(i, Indication::Abandon(x) if x.condition == c)) {
                out.push(vv("C17", "abandon_handler_not_taken", tag.clone(), format!("txn {:?}: handler Abandon for {:?} at the {}, but no Abandon indication at {}us", t.key, c, role, tf)));
            }
            if !at_tf(&|i| matches!(i, Indication::Report(r) if r.state == TransactionState::Terminated)) {
                out.push(vv("C17", "abandon_does_not_end_transaction", tag.clone(), format!("txn {:?}: handler Abandon for {:?} at the {}, but the transaction did not end at {}us", t.key, c, role, tf)));
            }
            if let Some(s) = side.sent.iter().find(|s| s.vt > tf && s.seq < end) {
                out.push(vv("C17", "pdu_after_abandon", tag, format!("txn {:?}: the {} abandoned at {}us but emitted {} at {}us", t.key, role, tf, s.kind.name(), s.vt)));
            }
        }
        2 => {
            if !at_tf(&|i| matches!(i, Indication::Suspended(x) if x.condition == c)) {
                out.push(vv("C17", "suspend_handler_not_taken", tag.clone(), format!("txn {:?}: handler Suspend for {:?} at the {}, but no Suspended indication at {}us", t.key, c, role, tf)));
            }
            let leaked = side.sent.iter().filter(|s| s.vt > tf && matches!(s.kind, Kind::Md | Kind::Fd | Kind::Eof | Kind::Nak | Kind::Fin)).count();
            if leaked > crate::props::c19::ALLOWANCE {
                out.push(vv("C17", "transmits_after_suspend_handler", tag, format!("txn {:?}: the {} was suspended by its fault handler at {}us and emitted {} PDUs afterwards", t.key, role, tf, leaked)));
            }
        }
        3 => {
            // ignore: no cancel, suspend or abandon effect at t_f
            // (several faults may be declared at one instant: an effect is attributed to the fault
            // whose condition it carries)
            if at_tf(&|i| matches!(i, Indication::Abandon(x) if x.condition == c) || matches!(i, Indication::Suspended(x) if x.condition == c)) {
                out.push(vv("C17", "ignore_handler_not_honoured", tag.clone(), format!("txn {:?}: handler Ignore for {:?} at the {}, but an Abandon / Suspended indication follows at {}us", t.key, c, role, tf)));
            }
            // a cancel that the PEER started (its EOF / Finished with an error condition delivered by
            // this instant) is not an effect of the ignored fault, even if it carries the same code
            let peer_cancelled = side.recvd.iter().any(|r| {
                r.vt <= tf
                    && match r.pdu.as_ref().and_then(|p| op_of(p)) {
                        Some(Operations::EoF(x)) => x.condition != Condition::NoError,
                        Some(Operations::Finished(x)) => x.condition != Condition::NoError,
                        _ => false,
                    }
            });
            let limit_cond = !peer_cancelled && matches!(c, Condition::PositiveLimitReached | Condition::NakLimitReached | Condition::InactivityDetected);
            // an ignored fault leaves its code in the transaction's condition field, and every later
            // Finished carries it (also minutes later: not an effect of the handler). When the PDU
            // that completes the file is delivered at the very instant the fault is declared, the
            // ordinary completion (delivery code Complete, file delivered) happens at t_f and its
            // Finished is not a cancel either.
            let completing_pdu_now = side.recvd.iter().any(|r| {
                r.vt == tf
                    && r.pdu.as_ref().map_or(false, |p| match op_of(p) {
                        None => true, // file data
                        Some(Operations::EoF(_)) | Some(Operations::Metadata(_)) => true,
                        _ => false,
                    })
            });
            let cancel_pdu = limit_cond && side.sent.iter().any(|s| {
                s.vt == tf
                    && match s.pdu.as_ref().and_then(|p| op_of(p)) {
                        Some(Operations::EoF(e)) => e.condition == c,
                        Some(Operations::Finished(f)) => f.condition == c && !(completing_pdu_now && f.delivery_code == DeliveryCode::Complete),
                        _ => false,
                    }
            });
            if cancel_pdu {
                out.push(vv("C17", "ignore_handler_not_honoured", tag, format!("txn {:?}: handler Ignore for {:?} at the {}, but a cancel PDU carrying it went out at {}us", t.key, c, role, tf)));
            }
        }
        _ => {
            // unset or Cancel: the cancel procedure starts
            if at_tf(&|i| matches!(i, Indication::Suspended(x) if x.condition == c)) {
                out.push(vv("C17", "cancel_handler_not_taken", tag.clone(), format!("txn {:?}: handler {} for {:?} at the {}, but an Abandon / Suspended indication follows at {}us", t.key, if h == 0 { "unset" } else { "Cancel" }, c, role, tf)));
            }
            if sender {
                let ok = side.sent.iter().any(|s| s.vt >= tf && matches!(s.pdu.as_ref().and_then(|p| op_of(p)), Some(Operations::EoF(e)) if e.condition == c && e.fault_location.map(|f| f.to_u64()) == Some(t.key.0)));
                // the link may be cut: the PDU is logged even when it is dropped
                if !ok {
                    out.push(vv("C17", "cancel_handler_not_taken", tag, format!("txn {:?}: {:?} at the sender with handler {} but no EOF carrying it (and the source entity as fault location) follows", t.key, c, if h == 0 { "unset" } else { "Cancel" })));
                }
            } else if !unack {
                let ok = side.sent.iter().any(|s| s.vt >= tf && matches!(s.pdu.as_ref().and_then(|p| op_of(p)), Some(Operations::Finished(f)) if f.condition == c));
                if !ok {
                    out.push(vv("C17", "cancel_handler_not_taken", tag, format!("txn {:?}: {:?} at the receiver with handler {} but no Finished PDU carrying it follows", t.key, c, if h == 0 { "unset" } else { "Cancel" })));
                }
            }
        }
    }
}

// ---------------------------------------------------------------------------------------------

fn grid_cfg(rng: &mut Rng, unack: bool) -> Scenario {
    let k = Knobs { unack: Some(unack), ser: false, stale_dest: false, seg_choices: vec![24, 64, 1024], ..Knobs::default() };
    let mut sc = gen::pair_cfg(rng, &k);
    sc.ser_us = 0;
    sc.ser_ns_byte = 0;
    // pairwise different timeouts so the ladders are distinguishable in the trace
    let mut ts = vec![1i64, 2, 3, 5, 7];
    for i in (1..ts.len()).rev() {
        let j = rng.usize_below(i + 1);
        ts.swap(i, j);
    }
    let limit = *rng.pick(&[1u32, 2, 3, 5]);
    for e in sc.ents.iter_mut() {
        e.t_inact = ts[0];
        e.t_ack = ts[1];
        e.t_nak = ts[2];
        e.limit = limit;
        e.nak_delay_ms = *rng.pick(&[0u64, 0, 200]);
        e.handlers.clear();
        for cond in [1u8, 7, 8] {
            let h = *rng.pick(&[0u8, 1, 2, 3, 4]);
            if h != 0 {
                e.handlers.push((cond, h));
            }
        }
    }
    let seg = sc.ents[0].seg as u64;
    let size = *rng.pick(&[0, 1, seg, 3 * seg + 1]);
    sc.puts.push(crate::props::file_put(unack, size, Content::Counter, rng.next_u64()));
    sc
}

/// scripted sender keeps a real receiver alive by answering just before each expiry, then stops
fn rx_keepalive(seed: u64, i: usize) -> Scenario {
    let mut rng = Rng::new(mix(seed ^ 0xC17B, i as u64));
    let mut sc = Scenario::default();
    sc.family = "rx".into();
    sc.idw = *rng.pick(&[1u8, 2, 4, 8]);
    sc.ents[0].real = false;
    let mut ts = vec![2i64, 3, 5, 7];
    for k in (1..ts.len()).rev() {
        let j = rng.usize_below(k + 1);
        ts.swap(k, j);
    }
    let limit = *rng.pick(&[1u32, 2, 3]);
    {
        let e = &mut sc.ents[1];
        e.seg = 64;
        e.t_inact = ts[0];
        e.t_nak = ts[1];
        e.t_ack = ts[2];
        e.limit = limit;
        e.nak_immediate = rng.chance(1, 2);
        for cond in [7u8, 8, 5, 6] {
            let h = *rng.pick(&[0u8, 1, 2, 3, 4]);
            if h != 0 {
                e.handlers.push((cond, h));
            }
        }
    }
    let e = sc.ents[1].clone();
    let h = Hdr { idw: sc.idw, src: 1, seq: 9, dst: 2, unack: false, crc: false, large: false };
    let nseg = 12u64;
    let seglen = 10u64;
    let size = nseg * seglen;
    let data = content::gen(&FileSpec { size, class: Content::Counter, cseed: 1 });
    let mut t = 1000u64;
    let mut inj = |sc: &mut Scenario, bytes: Vec<u8>, at: u64| sc.script.push(Entry::Inject { src: 0, dst: 1, what: What::Raw(bytes), at: Trigger::At(at), delay_us: 0 });
    inj(&mut sc, h.metadata(size, "remote", "out.bin", false, false, vec![]), t);
    let mode = rng.below(4);
    let rounds = rng.range(1, 6);
    match mode {
        0 => {
            // inactivity: one data PDU just before each inactivity expiry, then silence (no EOF)
            let step = e.t_inact as u64 * SEC - *rng.pick(&[1000u64, 100_000, 500_000]);
            for r in 0..rounds.min(nseg) {
                t += step;
                inj(&mut sc, h.filedata(r * seglen, &data[(r * seglen) as usize..((r + 1) * seglen) as usize]), t);
            }
        }
        1 => {
            // NAK: EOF early, then one missing segment just before each NAK expiry
            t += 1000;
            inj(&mut sc, h.eof(Condition::NoError, content::modular_checksum(&data), size), t);
            let step = (e.t_nak as u64 * SEC).min(e.t_inact as u64 * SEC) - *rng.pick(&[1000u64, 100_000, 400_000]);
            for r in 0..rounds.min(nseg - 1) {
                t += step;
                inj(&mut sc, h.filedata(r * seglen, &data[(r * seglen) as usize..((r + 1) * seglen) as usize]), t);
            }
        }
        2 => {
            // checksum failure: everything arrives, EOF lies about the checksum
            for r in 0..nseg {
                t += 1000;
                inj(&mut sc, h.filedata(r * seglen, &data[(r * seglen) as usize..((r + 1) * seglen) as usize]), t);
            }
            t += 1000;
            inj(&mut sc, h.eof(Condition::NoError, content::modular_checksum(&data) ^ 0x55, size), t);
        }
        _ => {
            // file size error: data beyond the size the EOF announces
            for r in 0..nseg {
                t += 1000;
                inj(&mut sc, h.filedata(r * seglen, &data[(r * seglen) as usize..((r + 1) * seglen) as usize]), t);
            }
            t += 1000;
            inj(&mut sc, h.eof(Condition::NoError, 0, size - 15), t);
        }
    }
    sc.horizon_ms = t / 1000 + (2 * (limit as u64 + 1) * 17 + 10) * 1000;
    sc
}

fn build(ctx: &Ctx, tier: Tier, seed: u64) -> Vec<Job<'static>> {
    let (cfgs, n_rx, n_rand) = match tier {
        Tier::Quick => (200, 20_000, 30_000),
        Tier::Thorough => (1_500, 200_000, 300_000),
    };
    let root = ctx.root(997);
    let mut rng = Rng::new(seed ^ 0xC175);
    let mut sweep: Vec<Scenario> = vec![];
    for ci in 0..cfgs {
        let sc = grid_cfg(&mut rng, ci % 5 == 4);
        let prof = gen::profile(&sc, &root, 0, 1);
        for dirs in [vec![(0usize, 1usize)], vec![(1, 0)], vec![(0, 1), (1, 0)]] {
            for p in crate::sweep::points(&prof, 0, 1) {
                let mut x = sc.clone();
                for (s, d) in &dirs {
                    x.script.push(Entry::Blackout { src: *s, dst: *d, from: p.clone(), until: Trigger::Never });
                }
                sweep.push(x);
            }
        }
    }
    let sw = Arc::new(sweep);
    let sw2 = sw.clone();
    let j0 = Job {
        label: "blackout grid: timeouts {1,2,3,5,7}s pairwise different x limit {1,2,3,5} x handler {unset,cancel,suspend,ignore,abandon} per limit condition and entity x cut of A>B, B>A or both before the first and after every PDU".into(),
        n: sw.len(),
        gen: Box::new(move |i| sw2[i].clone()),
    };
    let j1 = Job { label: "scripted sender: answers just before each inactivity / NAK expiry for k rounds, then silence; wrong checksum; file size error (handler clause for integrity faults)".into(), n: n_rx, gen: Box::new(move |i| rx_keepalive(seed, i)) };
    let j2 = Job {
        label: "seeded: grid configurations under random losses of single PDUs (ladders partly answered)".into(),
        n: n_rand,
        gen: Box::new(move |i| {
            let mut rng = Rng::new(mix(seed ^ 0xC17A, i as u64));
            let un = rng.chance(1, 6);
            let mut sc = grid_cfg(&mut rng, un);
            let prof = crate::checks::estimate_profile(&sc);
            let n = rng.range(1, 6);
            for _ in 0..n {
                let (s, d, idx) = if rng.chance(1, 2) { (0, 1, rng.below(prof.fwd.len() as u64 + 8) as u32) } else { (1, 0, rng.below(prof.rev.len() as u64 + 8) as u32) };
                sc.script.push(Entry::Fault { src: s, dst: d, sel: Sel::Nth(idx), act: Act::Drop });
            }
            sc
        }),
    };
    vec![j0, j1, j2]
}

fn probes(a: &Analysis, out: &mut Vec<&'static str>) {
    common_probes(a, out);
    let sc = &a.rec.sc;
    for t in a.txns.values() {
        for (side, ent) in [(&t.at_src, Some(t.src_ent)), (&t.at_dst, t.dst_ent)] {
            let Some(ent) = ent else { continue };
            if ent >= sc.ents.len() || !sc.ents[ent].real {
                continue;
            }
            for i in &side.inds {
                if let Indication::Fault(f) = &i.ind {
                    out.push(match handler_of(sc, ent, f.condition) {
                        0 => "fault_with_handler_unset",
                        1 => "fault_with_handler_cancel",
                        2 => "fault_with_handler_suspend",
                        3 => "fault_with_handler_ignore",
                        _ => "fault_with_handler_abandon",
                    });
                }
            }
        }
    }
    out.sort();
    out.dedup();
}

pub fn check() -> Check {
    Check {
        prop: "C17",
        level: "fault_enumeration",
        rule: "blackout grid: per configuration (inactivity/ack/nak timeouts drawn pairwise different from {1,2,3,5,7} s, limit from {1,2,3,5}, handler from {unset, cancel, suspend, ignore, abandon} per limit condition and entity, files of 0/1/1/3+ segments, both modes) a permanent cut of A>B, B>A or both before the first and after every PDU of the fault-free exchange; scripted sender answering just before each inactivity / NAK expiry for k rounds and then falling silent, lying about checksum or size; seeded single-PDU losses; non-trivial = a fault fired or a PDU was injected; distinct = distinct history fingerprint",
        assumptions: vec![
            "no link serialisation time (a PDU is logged at the instant it was created), no prompts, suspend/resume, cancel requests, clock jumps or stalls: each of them legitimately re-arms or pauses a timer",
            "only the lower bound is checked here (never earlier, exactly limit transmissions, retransmissions not before an expiry); that the fault does come is C03",
            "the NAK generation restarts with the first NAK round after the last delivery of new bytes; rounds at the same instant as that delivery count either way",
        ],
        oracle: Box::new(c17),
        cross: Box::new(safety_cross),
        probes: Box::new(probes),
        build,
        admissible: Box::new(domain_basic),
        real: REAL_SIM.to_vec(),
        stub: STUB_SIM.to_vec(),
    }
}

pub fn selftest(seed: u64, i: usize) -> Scenario {
    rx_keepalive(seed, i)
}
