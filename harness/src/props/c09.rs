//! C09: the receiver's account of which bytes it holds is exact.
//!
//! (A) history replay: arrival histories are replayed operation by operation against the real,
//! crate-private `Segments` (hook H2) next to a trivial interval-set model: bounded-exhaustive over
//! a small universe plus long seeded histories with offsets up to 2^64-1.
//! (B) protocol level: a scripted sender delivers segment histories to the real receiving daemon
//! over the simulated link, interleaved with Prompt(KeepAlive) and Prompt(NAK); the progress and
//! the NAK lists on the wire and the completion verdict are compared with the same model.

use cfdp_core::pdu::{Condition, Operations};
use cfdp_daemon::verif::Segments;

use crate::{
    analysis::{fd_range, op_of, Analysis, IntervalSet, Violation},
    checks::{domain_basic, Tier},
    content,
    custom::{par, sim_jobs, sim_replay, COut, CViol, Custom},
    json::J,
    oracle,
    pdus::Hdr,
    prng::{mix, Rng},
    runner::Job,
    scenario::*,
    world::kind_of,
};

#[derive(Clone, Debug, PartialEq, Eq, Hash)]
pub enum Op {
    Merge(u64, u64),
    Gaps(u64, u64),
    Complete(u64),
}

fn ops_text(ops: &[Op]) -> String {
    let body: Vec<String> = ops
        .iter()
        .map(|o| match o {
            Op::Merge(a, b) => format!("merge:{}:{}", a, b),
            Op::Gaps(a, b) => format!("gaps:{}:{}", a, b),
            Op::Complete(n) => format!("complete:{}", n),
        })
        .collect();
    format!("# cfdp-verif segments v1\nops {}\n", body.join(","))
}
fn ops_parse(text: &str) -> Result<Vec<Op>, String> {
    let line = text.lines().find(|l| l.starts_with("ops ")).ok_or("no ops line")?;
    line[4..]
        .split(',')
        .filter(|x| !x.trim().is_empty())
        .map(|x| {
            let p: Vec<&str> = x.trim().split(':').collect();
            let n = |i: usize| p.get(i).and_then(|v| v.parse::<u64>().ok()).ok_or(format!("bad op {x}"));
            Ok(match p[0] {
                "merge" => Op::Merge(n(1)?, n(2)?),
                "gaps" => Op::Gaps(n(1)?, n(2)?),
                "complete" => Op::Complete(n(1)?),
                _ => return Err(format!("bad op {x}")),
            })
        })
        .collect()
}

/// replay one history on the real list and on the model; first disagreement = violation
pub fn replay_ops(ops: &[Op]) -> Option<CViol> {
    let res = std::panic::catch_unwind(|| {
        let mut real = Segments::new();
        let mut model = IntervalSet::default();
        let mut sum_real: u128 = 0;
        for (i, op) in ops.iter().enumerate() {
            match op {
                Op::Merge(a, b) => {
                    let r = real.merge((*a, *b));
                    let m = model.insert(*a, *b);
                    sum_real += r as u128;
                    if r != m {
                        return Some(("merge_new_bytes_wrong", format!("step {}: merge({},{}) returned {} newly covered bytes, the union grew by {}", i, a, b, r, m)));
                    }
                    if sum_real != model.total() as u128 {
                        return Some(("progress_not_union", format!("step {}: running sum {} != |union| {}", i, sum_real, model.total())));
                    }
                }
                Op::Gaps(a, b) => {
                    let r = real.gaps(*a, *b);
                    let m = model.gaps(*a, *b);
                    if r != m {
                        let inverted = r.iter().any(|(x, y)| x >= y);
                        return Some((if inverted { "gaps_inverted_or_empty_range" } else { "gaps_wrong" }, format!("step {}: gaps({},{}) = {:?}, maximal uncovered sub-ranges are {:?} (held: {:?})", i, a, b, r, m, model.0)));
                    }
                }
                Op::Complete(n) => {
                    let r = real.is_complete(*n);
                    let m = model.covers(0, *n) && (*n > 0 || true);
                    if r != m {
                        return Some(("is_complete_wrong", format!("step {}: is_complete({}) = {}, every byte of [0,{}) held = {} (held: {:?})", i, n, r, n, m, model.0)));
                    }
                }
            }
        }
        None
    });
    match res {
        Ok(None) => None,
        Ok(Some((clause, detail))) => Some(CViol { clause: clause.into(), signature: format!("C09/{}", clause), detail, replay: ops_text(ops) }),
        Err(_) => Some(CViol { clause: "segments_panic".into(), signature: "C09/segments_panic".into(), detail: format!("the segment list panicked: {}", crate::world::PANICS.with(|p| p.borrow().last().cloned().unwrap_or_default())), replay: ops_text(ops) }),
    }
}

fn all_segments(m: u64) -> Vec<(u64, u64)> {
    let mut v = vec![];
    for a in 0..m {
        for b in (a + 1)..=m {
            v.push((a, b));
        }
    }
    v
}

/// after the merges of a history: every window and every completeness query over the universe
fn queries(m: u64) -> Vec<Op> {
    let mut q = vec![];
    for a in 0..=m {
        for b in a..=m + 1 {
            if a < b {
                q.push(Op::Gaps(a, b));
            }
        }
    }
    for n in 0..=m + 1 {
        q.push(Op::Complete(n));
    }
    q
}

fn run(tier: Tier, seed: u64, workers: usize) -> COut {
    let (m, l, n_rand, n_situ) = match tier {
        Tier::Quick => (6u64, 3u32, 300_000usize, 30_000usize),
        Tier::Thorough => (7u64, 4u32, 3_000_000usize, 300_000usize),
    };
    let segs = all_segments(m);
    let ns = segs.len();
    // debugging aid: VERIF_PART=B runs the protocol-level part only
    let only_b = std::env::var("VERIF_PART").map(|v| v == "B").unwrap_or(false);
    let (l, n_rand) = if only_b { (0, 0) } else { (l, n_rand) };
    let total: usize = (1..=l).map(|k| ns.pow(k)).sum();
    let qs = queries(m);
    // (A1) bounded exhaustive
    let mut out = par(total, workers, |lo, hi| {
        let mut o = COut::default();
        for idx in lo..hi {
            // decode idx into a sequence of 1..=l segments
            let mut rest = idx;
            let mut len = 1u32;
            loop {
                let c = ns.pow(len);
                if rest < c {
                    break;
                }
                rest -= c;
                len += 1;
            }
            let mut ops: Vec<Op> = vec![];
            for _ in 0..len {
                let s = segs[rest % ns];
                rest /= ns;
                ops.push(Op::Merge(s.0, s.1));
            }
            let nm = ops.len();
            // queries are side-effect free: one replay with all of them appended
            ops.extend(qs.iter().cloned());
            o.evaluations += 1;
            if let Some(mut v) = replay_ops(&ops) {
                // shrink the replay to the merges and the failing query
                if let Some(step) = v.detail.strip_prefix("step ").and_then(|s| s.split(':').next()).and_then(|s| s.parse::<usize>().ok()) {
                    let mut small: Vec<Op> = ops[..nm].to_vec();
                    if step >= nm {
                        small.push(ops[step].clone());
                    } else {
                        small.truncate(step + 1);
                    }
                    if let Some(v2) = replay_ops(&small) {
                        v = v2;
                    }
                }
                o.viol(v);
            }
            if i_overlaps(&ops[..nm]) {
                o.distinct_nontrivial += 1;
            }
        }
        o
    });
    let exhaustive_hist = out.evaluations;
    // (A2) long seeded histories, offsets up to 2^64-1
    let b = par(n_rand, workers, |lo, hi| {
        let mut o = COut::default();
        for i in lo..hi {
            let mut rng = Rng::new(mix(seed ^ 0xC09A, i as u64));
            let base: u64 = match rng.below(4) {
                0 => 0,
                1 => u32::MAX as u64 - 50,
                2 => u64::MAX - 400,
                _ => rng.next_u64() >> rng.below(40),
            };
            let span = *rng.pick(&[12u64, 40, 200, 390]);
            let n = rng.range(2, 200) as usize;
            let mut ops = vec![];
            for _ in 0..n {
                match rng.below(10) {
                    0..=6 => {
                        let a = base.saturating_add(rng.below(span));
                        let cap = *rng.pick(&[1u64, 3, 8, 30]);
                        let len = 1 + rng.below(cap.min(span));
                        let b = a.saturating_add(len).min(base.saturating_add(span));
                        if a < b {
                            ops.push(Op::Merge(a, b));
                        }
                    }
                    7 | 8 => {
                        let a = if rng.chance(1, 3) { 0 } else { base.saturating_add(rng.below(span)) };
                        let b = a.saturating_add(rng.below(span + 2));
                        if a < b {
                            ops.push(Op::Gaps(a, b.min(base.saturating_add(span + 1))));
                        }
                    }
                    _ => ops.push(Op::Complete(if base == 0 { rng.below(span + 1) } else { base.saturating_add(rng.below(span)) })),
                }
            }
            o.evaluations += 1;
            o.distinct_nontrivial += 1;
            if let Some(v) = replay_ops(&ops) {
                o.viol(minimise_ops(v, &ops));
            }
        }
        o
    });
    out.merge(b);
    let wire_distinct = out.distinct_nontrivial;
    out.samples.push(ops_text(&[Op::Merge(2, 4), Op::Merge(5, 6), Op::Merge(1, 6), Op::Gaps(0, 6), Op::Complete(6)]));
    out.extra.push(("universe_positions".into(), J::i(m)));
    out.extra.push(("max_history_length_exhaustive".into(), J::i(l)));
    out.extra.push(("exhaustive_histories".into(), J::i(exhaustive_hist)));
    out.extra.push(("queries_per_exhaustive_history".into(), J::i(qs.len() as u64)));
    out.extra.push(("seeded_long_histories".into(), J::i(n_rand as u64)));
    // (B) protocol level
    let job = Job { label: "protocol level: scripted sender delivers overlapping / duplicated / reordered segments with KeepAlive and NAK prompts to the real receiver".into(), n: n_situ, gen: Box::new(move |i| rx_history(seed, i)) };
    let mut situ = sim_jobs(workers, vec![job], &c09_protocol, &domain_basic, &|v, _, _| format!("C09/{}/{}", v.clause, v.value));
    let situ_distinct = situ.distinct.len() as u64;
    situ.distinct.clear();
    out.merge(situ);
    out.distinct_nontrivial = wire_distinct + situ_distinct;
    out.exhaustive_note = format!("all histories of 1..={} segments over {} byte positions, each followed by every window and every completeness query over the universe, are enumerated completely; long histories and protocol-level runs are seeded", l, m);
    out
}

fn i_overlaps(ops: &[Op]) -> bool {
    // non-trivial history: at least two segments that overlap, touch or arrive out of order
    let segs: Vec<(u64, u64)> = ops.iter().filter_map(|o| if let Op::Merge(a, b) = o { Some((*a, *b)) } else { None }).collect();
    for i in 0..segs.len() {
        for j in 0..i {
            if segs[i].0 <= segs[j].1 && segs[j].0 <= segs[i].1 {
                return true;
            }
            if segs[i].0 < segs[j].0 {
                return true;
            }
        }
    }
    false
}

fn minimise_ops(v: CViol, ops: &[Op]) -> CViol {
    let mut cur: Vec<Op> = ops.to_vec();
    let mut best = v;
    let mut i = 0;
    let mut budget = 3000;
    while i < cur.len() && budget > 0 {
        let mut cand = cur.clone();
        cand.remove(i);
        budget -= 1;
        match replay_ops(&cand) {
            Some(v2) if v2.clause == best.clause => {
                cur = cand;
                best = v2;
            }
            _ => i += 1,
        }
    }
    best
}

// ---------------------------------------------------------------------------------------------
// protocol level

/// a scripted sender (entity 0) delivers a segment history of one acknowledged transaction to the
/// real entity 1; prompts are interleaved; EOF comes last (sometimes earlier)
pub fn rx_history(seed: u64, i: usize) -> Scenario {
    let mut rng = Rng::new(mix(seed ^ 0xC09B, i as u64));
    let mut sc = Scenario::default();
    sc.family = "rx".into();
    sc.rt_seed = rng.next_u64();
    sc.idw = *rng.pick(&[1u8, 2, 4, 8]);
    sc.ents[0].real = false;
    let e = &mut sc.ents[1];
    e.seg = *rng.pick(&[64u16, 128, 1024]);
    e.nak_immediate = rng.chance(1, 2);
    e.nak_delay_ms = *rng.pick(&[0u64, 0, 30]);
    e.limit = 3;
    e.t_inact = 20;
    e.t_nak = 5;
    e.t_ack = 5;
    let size = rng.range(1, 400);
    let data = content::gen(&FileSpec { size, class: Content::Counter, cseed: 0 });
    let h = Hdr { idw: sc.idw, src: 1, seq: 7, dst: 2, unack: false, crc: false, large: false };
    let mut t = 1000u64;
    let step = 2000u64;
    let mut push = |sc: &mut Scenario, bytes: Vec<u8>, t: &mut u64| {
        sc.script.push(Entry::Inject { src: 0, dst: 1, what: What::Raw(bytes), at: Trigger::At(*t), delay_us: 0 });
        *t += step;
    };
    if rng.chance(4, 5) {
        push(&mut sc, h.metadata(size, "remote", "out.bin", false, false, vec![]), &mut t);
    }
    let nseg = rng.range(1, 14);
    let complete_bias = rng.chance(1, 2);
    let mut covered = IntervalSet::default();
    for _ in 0..nseg {
        let a = rng.below(size);
        let cap = *rng.pick(&[4u64, 16, 60, 200]);
        let len = 1 + rng.below(cap.min(size - a));
        let b = (a + len).min(size);
        push(&mut sc, h.filedata(a, &data[a as usize..b as usize]), &mut t);
        covered.insert(a, b);
        match rng.below(6) {
            0 => push(&mut sc, h.prompt(true), &mut t),
            1 => push(&mut sc, h.prompt(false), &mut t),
            _ => {}
        }
    }
    if complete_bias {
        // fill what is missing, in random order, sometimes with overlap
        let mut gaps = covered.gaps(0, size);
        while !gaps.is_empty() {
            let g = gaps.remove(rng.usize_below(gaps.len()));
            let a = g.0.saturating_sub(rng.below(3));
            let b = (g.1 + rng.below(3)).min(size);
            push(&mut sc, h.filedata(a, &data[a as usize..b as usize]), &mut t);
        }
    }
    push(&mut sc, h.prompt(true), &mut t);
    push(&mut sc, h.eof(Condition::NoError, content::modular_checksum(&data), size), &mut t);
    push(&mut sc, h.prompt(true), &mut t);
    push(&mut sc, h.prompt(false), &mut t);
    sc.horizon_ms = (t / 1000) + 4_000;
    sc
}

/// what the receiver had been handed before link event `seq`
fn held_before(a: &Analysis, ent: usize, seq: u64) -> (bool, IntervalSet, Option<u64>) {
    held_of(a.recvs.iter().filter(|r| r.dst == ent && r.seq < seq))
}

fn held_of<'a>(it: impl Iterator<Item = &'a crate::analysis::RecvRef>) -> (bool, IntervalSet, Option<u64>) {
    let mut md = false;
    let mut set = IntervalSet::default();
    let mut eof = None;
    for r in it {
        if let Some(p) = &r.pdu {
            match kind_of(p) {
                Kind::Md => md = true,
                Kind::Fd => {
                    if let Some((x, y, _)) = fd_range(p) {
                        set.insert(x, y);
                    }
                }
                Kind::Eof => {
                    if let Some(Operations::EoF(e)) = op_of(p) {
                        eof = Some(e.file_size);
                    }
                }
                _ => {}
            }
        }
    }
    (md, set, eof)
}

/// Prefix consistency (DESIGN section 4): when the receiver emits an answer at link sequence s
/// and virtual instant t, it has certainly processed everything its transport pulled at earlier
/// instants (the clock only advances when every task is idle) and possibly a FIFO prefix of what
/// was pulled at instant t before s. Each such prefix is a candidate for "what it held".
fn candidates(a: &Analysis, ent: usize, seq: u64, vt: u64) -> Vec<(bool, IntervalSet, Option<u64>, bool)> {
    let earlier: Vec<&crate::analysis::RecvRef> = a.recvs.iter().filter(|r| r.dst == ent && r.vt < vt).collect();
    let same: Vec<&crate::analysis::RecvRef> = a.recvs.iter().filter(|r| r.dst == ent && r.vt == vt && r.seq < seq).collect();
    let mut out = vec![];
    for k in 0..=same.len() {
        let (md, set, eof) = held_of(earlier.iter().copied().chain(same[..k].iter().copied()));
        // was the last PDU of this prefix a Prompt(NAK)?
        let last = same[..k].last().copied().or(earlier.last().copied());
        let prompted = last
            .filter(|r| r.vt == vt)
            .and_then(|r| r.pdu.as_ref())
            .map(|p| matches!(op_of(p), Some(Operations::Prompt(pr)) if pr.nak_or_keep_alive == cfdp_core::pdu::NakOrKeepAlive::Nak))
            .unwrap_or(false);
        out.push((md, set, eof, prompted));
    }
    out
}

/// protocol-level oracle for scripted-sender runs; every clause is judged against every admissible
/// prefix and only reported if it fails for all of them
pub fn c09_protocol(a: &Analysis) -> Vec<Violation> {
    let mut out = vec![];
    let ent = 1usize;
    let mut prev_nak_vt: Option<u64> = None;
    for s in a.sends.iter().filter(|s| s.src == ent && !s.injected) {
        let Some(p) = &s.pdu else { continue };
        let cands = candidates(a, ent, s.seq, s.vt);
        match op_of(p) {
            Some(Operations::KeepAlive(k)) => {
                if !cands.iter().any(|(_, set, _, _)| k.progress == set.total()) {
                    let (_, set, _, _) = cands.last().unwrap();
                    out.push(oracle::vv("C09", "keepalive_progress_not_distinct_bytes", if k.progress > set.total() { "over".into() } else { "under".into() }, format!("KeepAlive at seq {} reports progress {}, the receiver holds {} distinct bytes: {:?}", s.seq, k.progress, set.total(), set.0)));
                }
            }
            Some(Operations::Nak(n)) => {
                for r in &n.segment_requests {
                    if r.start_offset == 0 && r.end_offset == 0 {
                        continue;
                    }
                    if r.start_offset >= r.end_offset {
                        out.push(oracle::v("C09", "nak_inverted_or_empty_range", format!("NAK at seq {} requests [{}, {})", s.seq, r.start_offset, r.end_offset)));
                    } else if cands.iter().all(|(_, set, _, _)| set.covers(r.start_offset, r.end_offset)) {
                        out.push(oracle::v("C09", "nak_requests_held_bytes", format!("NAK at seq {} requests [{}, {}) which is entirely held: {:?}", s.seq, r.start_offset, r.end_offset, cands[0].1 .0)));
                    }
                }
                // a prompted NAK - the answer to a Prompt(NAK) delivered at this very instant, first
                // NAK since - lists exactly the maximal gaps (up to the capacity of one PDU)
                let got: Vec<(u64, u64)> = n.segment_requests.iter().map(|r| (r.start_offset, r.end_offset)).collect();
                let cap = cfdp_core::pdu::NegativeAcknowledgmentPDU::max_nak_num(p.header.large_file_flag, a.rec.sc.ents[ent].seg as u32) as usize;
                let first_nak_now = prev_nak_vt != Some(s.vt);
                let all_prompted = cands.iter().all(|c| c.3) && first_nak_now;
                if all_prompted {
                    let ok = cands.iter().any(|(md, set, eof, _)| {
                        let upper = eof.unwrap_or(set.max_end());
                        let mut want: Vec<(u64, u64)> = set.gaps(0, upper);
                        if !md {
                            want.insert(0, (0, 0));
                        }
                        let want_first: Vec<(u64, u64)> = want.iter().take(cap).copied().collect();
                        got == want_first
                    });
                    if !ok {
                        let (md, set, eof, _) = cands.last().unwrap();
                        out.push(oracle::v("C09", "prompted_nak_not_the_maximal_gaps", format!("prompted NAK at seq {} lists {:?}; held {:?}, eof {:?}, metadata {}", s.seq, got, set.0, eof, md)));
                    }
                }
                prev_nak_vt = Some(s.vt);
            }
            Some(Operations::Finished(f)) => {
                let complete = cands.iter().any(|(md, set, eof, _)| *md && eof.map(|n| set.covers(0, n)).unwrap_or(false));
                if (f.delivery_code == cfdp_core::pdu::DeliveryCode::Complete) && !complete {
                    let (md, set, eof, _) = cands.last().unwrap();
                    out.push(oracle::v("C09", "complete_reported_with_bytes_missing", format!("Finished at seq {} says Complete, held {:?}, eof {:?}, metadata {}", s.seq, set.0, eof, md)));
                }
            }
            _ => {}
        }
    }
    // completeness the other way: everything delivered, EOF in => the receiver finishes
    let (md, set, eof) = held_before(a, ent, u64::MAX);
    if let Some(n) = eof {
        if md && set.covers(0, n) && set.max_end() <= n {
            let fin = a.sends.iter().any(|s| s.src == ent && matches!(s.pdu.as_ref().and_then(|p| op_of(p)), Some(Operations::Finished(f)) if f.delivery_code == cfdp_core::pdu::DeliveryCode::Complete));
            if !fin {
                out.push(oracle::v("C09", "complete_file_not_recognised", format!("metadata, EOF({}) and every byte of [0,{}) were delivered but the receiver never reported a complete delivery (held {:?})", n, n, set.0)));
            }
        }
    }
    out
}

fn replay(text: &str) -> Result<Vec<CViol>, String> {
    if text.contains("# cfdp-verif replay v1") {
        return sim_replay(text, &c09_protocol, &|v, _, _| format!("C09/{}/{}", v.clause, v.value));
    }
    let ops = ops_parse(text)?;
    crate::world::install_panic_hook();
    Ok(replay_ops(&ops).into_iter().collect())
}

pub fn check() -> Custom {
    Custom {
        prop: "C09",
        level: "exploration",
        rule: "(A) one case = an arrival history (merge operations) replayed on the real Segments list next to an interval-set model, followed by every window query and completeness query over the universe: all histories of 1..L segments over M byte positions (bounded exhaustive), plus seeded histories of up to 200 operations with offsets up to 2^64-1; (B) seeded segment histories delivered by a scripted sender to the real receiving daemon with KeepAlive/NAK prompts; non-trivial = the history contains overlapping, touching or out-of-order segments; distinct = distinct history",
        assumptions: vec![
            "segments are non-empty and offset+length does not overflow u64 (anything else is not a segment)",
            "protocol level: deliveries are spaced 2 ms apart with nothing else in flight, so the prefix processed when an answer is emitted is exactly what was delivered before it",
        ],
        real: vec!["cfdp_daemon::segments::Segments (via hook H2)", "protocol level: RecvTransaction, Daemon, codec, NativeFileStore on tmpfs"],
        stub: vec!["the sending entity -> ScriptedPeer injecting raw PDUs at virtual instants"],
        run,
        replay,
    }
}
