//! C16: the UDP transport decodes each received datagram from its own bytes only.
//!
//! The real `UdpTransport` runs on 127.0.0.1 inside a current-thread tokio runtime; the harness
//! owns a second socket and serialises the history: exactly one datagram is in flight at any time
//! (send, then await `receive()`), so the kernel cannot reorder or drop. The kernel's loopback UDP
//! is the one component in the loop that the simulator does not own.

use std::collections::HashMap;
use std::time::Duration;

use cfdp_core::pdu::{PDUEncode, PDU};
use cfdp_daemon::transport::{PDUTransport, UdpTransport};

use crate::{
    checks::Tier,
    custom::{par, COut, CViol, Custom},
    json::J,
    prng::{mix, Rng},
    scenario::{hex, unhex},
    wirecorpus::{self, Item},
};

fn case_text(history: &[Vec<u8>]) -> String {
    let mut s = String::from("# cfdp-verif udp v1\n");
    for d in history {
        s.push_str(&format!("datagram bytes={}\n", hex(d)));
    }
    s
}

struct Rig {
    rt: tokio::runtime::Runtime,
    transport: UdpTransport,
    peer: std::net::UdpSocket,
    addr: std::net::SocketAddr,
}

fn rig() -> Result<Rig, String> {
    let rt = tokio::runtime::Builder::new_current_thread().enable_io().enable_time().build().map_err(|e| e.to_string())?;
    let (transport, addr) = rt.block_on(async {
        let sock = tokio::net::UdpSocket::bind("127.0.0.1:0").await.map_err(|e| e.to_string())?;
        let addr = sock.local_addr().map_err(|e| e.to_string())?;
        // entity 77 is routed back to the transport's own socket: a datagram the transport sends
        // there comes in from its own address (broadcast / multicast setups, a self-routing map)
        let mut map = HashMap::new();
        map.insert(cfdp_core::pdu::VariableID::from(77u8), addr);
        let t = UdpTransport::try_from((sock, map)).map_err(|e| e.to_string())?;
        Ok::<_, String>((t, addr))
    })?;
    let peer = std::net::UdpSocket::bind("127.0.0.1:0").map_err(|e| e.to_string())?;
    Ok(Rig { rt, transport, peer, addr })
}

/// send the datagrams one at a time; compare what the transport returns for each with the decode
/// of the datagram's own bytes. Err = harness error (loopback did not deliver).
fn play(history: &[Vec<u8>]) -> Result<Option<CViol>, String> {
    // a receive that times out (loaded or stalled host) is retried on a fresh transport; only three
    // timeouts in a row are a harness error
    let mut last = String::new();
    for _ in 0..3 {
        match play_once(history) {
            Err(e) => last = e,
            ok => return ok,
        }
    }
    Err(last)
}

fn play_once(history: &[Vec<u8>]) -> Result<Option<CViol>, String> {
    // a fresh transport per history: the verdict is a function of the history alone (a transport
    // carried over from the previous history would make a finding depend on datagrams that the
    // replay file does not list)
    let r = &mut rig()?;
    for (i, d) in history.iter().enumerate() {
        r.peer.send_to(d, r.addr).map_err(|e| format!("send: {e}"))?;
        let got = r.rt.block_on(async { tokio::time::timeout(Duration::from_secs(2), r.transport.receive()).await });
        let got = match got {
            Ok(g) => g,
            Err(_) => return Err("loopback datagram not received within 2 s".into()),
        };
        let want = PDU::decode(&mut d.as_slice());
        let bad = match (&got, &want) {
            (Ok(a), Ok(b)) => a != b,
            (Err(_), Err(_)) => false,
            _ => true,
        };
        if bad {
            let (clause, value) = match (&got, &want) {
                (Ok(_), Err(_)) => ("truncated_datagram_completed_with_stale_bytes", if i == 0 { "first" } else { "after_longer" }),
                (Ok(_), Ok(_)) => ("decoded_differently_from_own_bytes", ""),
                _ => ("valid_datagram_rejected", ""),
            };
            return Ok(Some(CViol {
                clause: clause.into(),
                signature: format!("C16/{}/{}", clause, value),
                detail: format!(
                    "datagram #{} of the history ({} octets): transport returned {}, its own bytes decode to {}",
                    i,
                    d.len(),
                    got.as_ref().map(|p| format!("PDU {}", crate::analysis::describe(p))).unwrap_or_else(|e| format!("error ({})", e)),
                    want.as_ref().map(|p| format!("PDU {}", crate::analysis::describe(p))).unwrap_or_else(|e| format!("error ({})", e)),
                ),
                replay: case_text(history),
            }));
        }
    }
    Ok(None)
}

fn self_case_text(own: &[u8], peer: &[u8]) -> String {
    format!("# cfdp-verif udp v1\nselfdatagram bytes={}\ndatagram bytes={}\n", hex(own), hex(peer))
}

/// A datagram that the transport sent to itself (valid PDU `own`), then a datagram of the remote
/// peer (`peer`, usually truncated). An implementation may hand its own datagram to the daemon or
/// skip it; either way every value `receive()` returns must be the decoding of the bytes of one
/// of the two datagrams, in order, and nothing may be merged or lost.
fn play_self(own: &[u8], peer: &[u8]) -> Result<Option<CViol>, String> {
    let mut last = String::new();
    for _ in 0..3 {
        match play_self_once(own, peer) {
            Err(e) => last = e,
            ok => return ok,
        }
    }
    Err(last)
}

fn play_self_once(own: &[u8], peer: &[u8]) -> Result<Option<CViol>, String> {
    let r = &mut rig()?;
    let own_pdu = PDU::decode(&mut &own[..]).map_err(|e| format!("corpus datagram does not decode: {e}"))?;
    r.rt.block_on(r.transport.request(cfdp_core::pdu::VariableID::from(77u8), own_pdu.clone())).map_err(|e| format!("self send: {e}"))?;
    r.peer.send_to(peer, r.addr).map_err(|e| format!("send: {e}"))?;
    let want_own = PDU::decode(&mut &own_pdu.clone().encode()[..]);
    let want_peer = PDU::decode(&mut &peer[..]);
    let same = |got: &Result<PDU, std::io::Error>, want: &Result<PDU, cfdp_core::pdu::PDUError>| match (got, want) {
        (Ok(a), Ok(b)) => a == b,
        (Err(_), Err(_)) => true,
        _ => false,
    };
    let show = |g: &Result<PDU, std::io::Error>| g.as_ref().map(|p| format!("PDU {}", crate::analysis::describe(p))).unwrap_or_else(|e| format!("error ({})", e));
    let mk = |clause: &str, detail: String| CViol { clause: clause.into(), signature: format!("C16/{}/after_own_datagram", clause), detail, replay: self_case_text(own, peer) };
    let first = r.rt.block_on(async { tokio::time::timeout(Duration::from_secs(2), r.transport.receive()).await });
    let Ok(first) = first else { return Err("loopback datagram not received within 2 s".into()) };
    if same(&first, &want_own) {
        // the own datagram was handed over: the peer's must follow, decoded from its own bytes
        // (both datagrams are in the socket's queue already: 300 ms is ample on loopback)
        let second = r.rt.block_on(async { tokio::time::timeout(Duration::from_millis(300), r.transport.receive()).await });
        match second {
            Ok(g) if same(&g, &want_peer) => Ok(None),
            Ok(g) => Ok(Some(mk("decoded_differently_from_own_bytes", format!("after a datagram from the transport's own address, the peer's datagram ({} octets) came back as {}", peer.len(), show(&g))))),
            Err(_) => {
                // nothing more comes: the two datagrams were merged into the first answer (which
                // happens to equal the own PDU when the peer's datagram is a truncated copy of it)
                Ok(Some(mk("truncated_datagram_completed_with_stale_bytes", format!("own datagram ({} octets) then a peer datagram of {} octets: receive() returned one PDU equal to the own one and then nothing: the peer's datagram was consumed without an answer of its own", own.len(), peer.len()))))
            }
        }
    } else if same(&first, &want_peer) {
        // the own datagram was skipped: fine
        Ok(None)
    } else {
        Ok(Some(mk("truncated_datagram_completed_with_stale_bytes", format!("own datagram ({} octets) then a peer datagram of {} octets: receive() returned {}, which is the decoding of neither", own.len(), peer.len(), show(&first)))))
    }
}

fn run(tier: Tier, seed: u64, workers: usize) -> COut {
    let root = camino::Utf8PathBuf::from(format!("/dev/shm/cfdp-verif/{}/corpus", std::process::id()));
    let mut corpus: Vec<Item> = wirecorpus::build(&root, None);
    let _ = std::fs::remove_dir_all(&root);
    // keep the enumeration affordable: at most 2 datagrams per (kind, crc, length class)
    corpus.sort_by_key(|it| it.bytes.len());
    let per_d2 = match tier {
        Tier::Quick => 8usize,
        Tier::Thorough => 64,
    };
    let n = corpus.len();
    let workers = workers.min(8);
    let mut out = par(n, workers, |lo, hi| {
        let mut o = COut::default();
        let (mut sent, mut hist) = (0u64, 0u64);
        let mut self_viols = 0u32;
        for j in lo..hi {
            let d2 = &corpus[j].bytes;
            let mut rng = Rng::new(mix(seed ^ 0xC16A, j as u64));
            // predecessors: the same datagram (retransmission), the longest one, random longer ones
            let mut preds: Vec<usize> = vec![j, n - 1];
            while preds.len() < per_d2 {
                let k = j + rng.usize_below(n - j);
                preds.push(k);
            }
            // a truncated datagram with nothing before it in a fresh transport
            if j == lo {
                for cut in 0..d2.len() {
                    hist += 1;
                    sent += 1;
                    match play(&[d2[..cut].to_vec(), d2.clone()]) {
                        Ok(Some(v)) => o.viol(v),
                        Ok(None) => {}
                        Err(e) => {
                            o.harness_errors.push(e);
                            return o;
                        }
                    }
                    o.note_distinct(&(j, usize::MAX, cut));
                }
            }
            // a datagram from the transport's own address, then truncations of a peer datagram
            // (of the same PDU, and of the longest one not longer than it)
            if j % 4 == 0 && self_viols < 20 {
                let own = &corpus[n - 1 - (j % 7).min(n - 1)].bytes;
                if own.len() >= d2.len() && PDU::decode(&mut &own[..]).is_ok() {
                    for cut in (0..d2.len()).step_by(3) {
                        for peer in [d2[..cut].to_vec(), own[..cut.min(own.len())].to_vec()] {
                            hist += 1;
                            sent += 2;
                            match play_self(own, &peer) {
                                Ok(Some(v)) => {
                                    // (each costs a timeout: twenty per worker are evidence enough)
                                    self_viols += 1;
                                    o.viol(v)
                                }
                                Ok(None) => {}
                                Err(e) => {
                                    o.harness_errors.push(e);
                                    return o;
                                }
                            }
                            o.note_distinct(&(j, usize::MAX - 1, cut, peer.len()));
                        }
                    }
                }
            }
            for (pi, k) in preds.iter().enumerate() {
                let d1 = &corpus[*k].bytes;
                if d1.len() < d2.len() {
                    continue;
                }
                for cut in 0..d2.len() {
                    // thorough: chains of two truncations after one long datagram
                    let mut h = vec![d1.clone(), d2[..cut].to_vec()];
                    if pi == 0 && cut % 7 == 3 {
                        h.push(d2[..cut / 2].to_vec());
                    }
                    // what follows a truncated datagram must be decoded from its own bytes too: the
                    // complete datagram (a retransmission), the lost tail alone, or another PDU
                    match cut % 3 {
                        0 => h.push(d2.clone()),
                        1 => h.push(d2[cut..].to_vec()),
                        _ => h.push(d1.clone()),
                    }
                    // a datagram that carries a complete PDU followed by a truncated second one (a
                    // sender that packs several PDUs into one datagram), after a longer datagram:
                    // whatever comes back must still be decoded from each datagram's own bytes
                    if pi == 1 && cut % 4 == 1 {
                        let packed = [d2.as_slice(), &d2[..cut]].concat();
                        if packed.len() <= d1.len() {
                            let h2 = vec![d1.clone(), packed, d2.clone()];
                            hist += 1;
                            sent += 3;
                            match play(&h2) {
                                Ok(Some(v)) => o.viol(v),
                                Ok(None) => {}
                                Err(e) => {
                                    o.harness_errors.push(e);
                                    return o;
                                }
                            }
                            o.note_distinct(&(j, *k, cut, 2usize));
                        }
                    }
                    hist += 1;
                    sent += h.len() as u64;
                    match play(&h) {
                        Ok(Some(v)) => o.viol(v),
                        Ok(None) => {}
                        Err(e) => {
                            o.harness_errors.push(e);
                            return o;
                        }
                    }
                    o.note_distinct(&(j, *k, cut));
                }
            }
        }
        o.evaluations = hist;
        o.extra.push(("datagrams_sent_over_loopback".into(), J::i(sent)));
        o
    });
    crate::props::sum_extras(&mut out);
    out.samples.push(case_text(&[corpus[n / 2].bytes.clone(), corpus[n / 2].bytes[..corpus[n / 2].bytes.len() - 1].to_vec()]));
    out.extra.push(("corpus_datagrams".into(), J::i(n as u64)));
    out.extra.push(("component_not_simulated".into(), J::s("kernel loopback UDP (127.0.0.1); histories are serialised: one datagram in flight")));
    out.exhaustive_note = "for every corpus datagram D2 and each chosen predecessor D1 (D2 itself, the longest datagram, seeded longer ones) every truncation length of D2 is sent after D1; predecessors are a sample of the longer datagrams".into();
    let _ = PDU::encode;
    out
}

fn replay(text: &str) -> Result<Vec<CViol>, String> {
    if let Some(own) = text.lines().find_map(|l| l.strip_prefix("selfdatagram bytes=")) {
        let own = unhex(own.trim())?;
        let peer = text.lines().find_map(|l| l.strip_prefix("datagram bytes=")).map(|x| unhex(x.trim())).transpose()?.unwrap_or_default();
        return play_self(&own, &peer).map(|v| v.into_iter().collect());
    }
    let mut h = vec![];
    for l in text.lines() {
        if let Some(r) = l.strip_prefix("datagram bytes=") {
            h.push(unhex(r.trim())?);
        }
    }
    if h.is_empty() {
        return Err("no datagrams".into());
    }
    play(&h).map(|v| v.into_iter().collect())
}

pub fn check() -> Custom {
    Custom {
        prop: "C16",
        level: "fault_enumeration",
        rule: "one evaluation = one history (a valid datagram D1, then a truncation of a valid datagram D2 no longer than D1, sometimes a second truncation, then a follower: D2 complete, D2's lost tail alone, or D1 again; or a datagram that the transport sent to its own address followed by a truncated datagram of the peer) sent one datagram at a time to a fresh real UdpTransport over loopback; the value returned by receive() for each datagram is compared with PDU::decode of that datagram's own bytes; non-trivial = every history (each contains a truncated datagram); distinct = distinct (D2, D1, truncation length)",
        assumptions: vec![
            "the kernel's loopback UDP delivers a datagram sent to a bound local socket (a receive that does not complete within 2 s is a harness error, exit 2, never a verdict)",
            "exactly one datagram in flight: no reordering or loss can occur",
        ],
        real: vec!["cfdp_daemon::transport::UdpTransport (receive, 64 KiB buffer)", "tokio UdpSocket + kernel loopback UDP", "cfdp_core::pdu::PDU::decode"],
        stub: vec!["the remote entity -> a std UdpSocket owned by the harness"],
        run,
        replay,
    }
}
