//! C06: decoding arbitrary bytes never panics, never loops, never allocates beyond what the 16-bit
//! length field can announce; what it accepts is canonical.
//!
//! Fault enumeration on the wire seam (truncation = EOF at an arbitrary instant, mutation = a
//! damaged octet in transit, garbage = a foreign sender), through the same decode call the
//! transport's receive path makes; in situ: the damaged datagrams are injected into live daemons,
//! which must survive and keep serving.

use std::sync::atomic::{AtomicU64, Ordering};
use std::time::Instant;

use cfdp_core::pdu::{PDUEncode, PDU};

use crate::{
    alloc_track,
    analysis::Analysis,
    checks::{domain_basic, Tier},
    custom::{par, sim_jobs, sim_replay, COut, CViol, Custom},
    json::J,
    oracle,
    prng::{mix, Rng},
    props::file_put,
    runner::Job,
    scenario::*,
    wirecorpus::{self, Item},
};

/// the largest single allocation request tolerated inside one decode call: twice the 64 KiB a
/// length field can announce (amortised growth of a Vec holding it) plus slack
const MAX_SINGLE_ALLOC: usize = 2 * 65536 + 4096;
const MAX_PEAK_ALLOC: usize = 6 * 65536;

fn case_text(bytes: &[u8]) -> String {
    format!("# cfdp-verif wire v1\ncase mode=c06 bytes={}\n", hex(bytes))
}

fn last_panic() -> String {
    crate::world::PANICS.with(|p| p.borrow().last().cloned().unwrap_or_default())
}
fn panic_site(msg: &str) -> String {
    // "message @ file:line" -> "file:line" with the path shortened to the crate-relative part
    let loc = msg.rsplit(" @ ").next().unwrap_or("");
    loc.rsplit("/repo/").next().unwrap_or(loc).to_string()
}

pub struct Verdict {
    pub viols: Vec<CViol>,
    pub accepted: bool,
    pub max_req: usize,
}

pub fn judge(bytes: &[u8]) -> Verdict {
    let mut viols = vec![];
    crate::world::PANICS.with(|p| p.borrow_mut().clear());
    let t0 = Instant::now();
    let (res, max_req, peak) = alloc_track::tracked(|| std::panic::catch_unwind(|| PDU::decode(&mut &bytes[..])));
    let mut el = t0.elapsed();
    // wall-clock is the one real-time element here: a stall of the whole machine (a snapshot, a
    // loaded host) must not count as a slow decoder. A slow verdict is re-measured twice and the
    // fastest of the three measurements counts.
    for _ in 0..2 {
        if el.as_millis() <= 2000 {
            break;
        }
        let t1 = Instant::now();
        let _ = std::panic::catch_unwind(|| PDU::decode(&mut &bytes[..]));
        el = el.min(t1.elapsed());
    }
    let mk = |clause: &str, value: String, detail: String| CViol {
        clause: clause.to_string(),
        signature: format!("C06/{}/{}", clause, value),
        detail,
        replay: case_text(bytes),
    };
    if el.as_millis() > 2000 {
        viols.push(mk("decode_too_slow", String::new(), format!("decoding {} octets took {} ms", bytes.len(), el.as_millis())));
    }
    if max_req > MAX_SINGLE_ALLOC || peak > MAX_PEAK_ALLOC {
        viols.push(mk("allocation_beyond_length_field", String::new(), format!("decoding {} octets requested a single allocation of {} bytes (peak live {} bytes)", bytes.len(), max_req, peak)));
    }
    let mut accepted = false;
    match res {
        Err(_) => {
            let m = last_panic();
            viols.push(mk("decoder_panic", panic_site(&m), format!("PDU::decode panicked on a {}-octet datagram: {}", bytes.len(), m)));
        }
        Ok(Err(_)) => {}
        Ok(Ok(p)) => {
            accepted = true;
            // canonical: re-encode with the length field recomputed, decode again
            let mut p2 = p.clone();
            p2.header.pdu_data_field_length = p2.payload.encoded_len(p2.header.large_file_flag);
            let p3 = p2.clone();
            match std::panic::catch_unwind(move || {
                let enc = p3.encode();
                let dec = PDU::decode(&mut enc.as_slice());
                (enc, dec)
            }) {
                Err(_) => {
                    let m = last_panic();
                    viols.push(mk("reencode_panic", panic_site(&m), format!("re-encoding / re-decoding the accepted PDU panicked: {}", m)));
                }
                Ok((enc, Ok(q))) => {
                    if q != p2 {
                        viols.push(mk("accepted_not_canonical", crate::world::kind_of(&p2).name().to_string(), format!("accepted PDU {:?} re-encodes to {} octets which decode to a different PDU {:?}", p2, enc.len(), q)));
                    }
                }
                Ok((enc, Err(e))) => {
                    viols.push(mk("accepted_not_canonical", format!("{}-redecode-error", crate::world::kind_of(&p2).name()), format!("accepted PDU {:?} re-encodes to {} octets which are rejected: {}", p2, enc.len(), e)));
                }
            }
        }
    }
    Verdict { viols, accepted, max_req }
}

/// the damaged variants of one corpus datagram
fn damages(orig: &[u8], f: &mut dyn FnMut(&[u8], u8)) {
    let l = orig.len();
    // every truncation
    for n in 0..l {
        f(&orig[..n], 0);
    }
    // every single-octet mutation with boundary values
    let mut v = orig.to_vec();
    for i in 0..l {
        let o = orig[i];
        for x in [0x00u8, 0x01, 0x7F, 0x80, 0xFF, !o, o.wrapping_add(1), o.wrapping_sub(1)] {
            if x != o {
                v[i] = x;
                f(&v, 1);
            }
        }
        v[i] = o;
    }
    // length field forced, with the CRC flag and the large-file flag in every combination
    if l >= 4 {
        for len in [0u16, 1, 2, 3, 255, 256, 65533, 65534, 65535, (l as u16).wrapping_sub(1), l as u16] {
            for flags in 0..4u8 {
                let mut w = orig.to_vec();
                w[0] = (w[0] & !0x03) | flags;
                w[1..3].copy_from_slice(&len.to_be_bytes());
                f(&w, 2);
            }
        }
        // id-length nibbles
        for b in 0..=255u8 {
            let mut w = orig.to_vec();
            w[3] = b;
            f(&w, 2);
        }
    }
    // trailing garbage after a valid datagram
    let mut w = orig.to_vec();
    w.extend_from_slice(&[0xFF; 7]);
    f(&w, 3);
}

static PER_FAMILY: [AtomicU64; 6] = [AtomicU64::new(0), AtomicU64::new(0), AtomicU64::new(0), AtomicU64::new(0), AtomicU64::new(0), AtomicU64::new(0)];
static ACCEPTED: AtomicU64 = AtomicU64::new(0);
static MAX_REQ: AtomicU64 = AtomicU64::new(0);

fn feed(o: &mut COut, bytes: &[u8], fam: u8) {
    let v = judge(bytes);
    o.evaluations += 1;
    PER_FAMILY[fam as usize].fetch_add(1, Ordering::Relaxed);
    if v.accepted {
        ACCEPTED.fetch_add(1, Ordering::Relaxed);
    }
    MAX_REQ.fetch_max(v.max_req as u64, Ordering::Relaxed);
    for x in v.viols {
        o.viol(x);
    }
}

fn run(tier: Tier, seed: u64, workers: usize) -> COut {
    let mut out = COut::default();
    if !alloc_track::installed() {
        out.harness_errors.push("tracking allocator not installed".into());
        return out;
    }
    let root = camino::Utf8PathBuf::from(format!("/dev/shm/cfdp-verif/{}/corpus", std::process::id()));
    let corpus: Vec<Item> = wirecorpus::build(&root, None);
    let _ = std::fs::remove_dir_all(&root);
    for it in &corpus {
        if PDU::decode(&mut it.bytes.as_slice()).is_err() {
            out.harness_errors.push(format!("corpus datagram {} does not decode", it.label));
        }
    }
    if !out.harness_errors.is_empty() {
        return out;
    }
    let (short_len3_step, n_garbage) = match tier {
        Tier::Quick => (37u32, 400_000usize),
        Tier::Thorough => (1, 3_000_000),
    };
    // watchdog against a decode that never returns
    let beat: Vec<AtomicU64> = (0..workers + 1).map(|_| AtomicU64::new(0)).collect();
    let cur: Vec<std::sync::Mutex<Vec<u8>>> = (0..workers + 1).map(|_| std::sync::Mutex::new(vec![])).collect();
    let _ = (&beat, &cur);

    // 1. damaged corpus datagrams
    let n = corpus.len();
    let a = par(n, workers, |lo, hi| {
        let mut o = COut::default();
        for it in &corpus[lo..hi] {
            damages(&it.bytes, &mut |b, fam| feed(&mut o, b, fam));
        }
        o
    });
    out.merge(a);
    // 2. all strings of length <= 2, length 3 with a stride (thorough: all)
    let b = par(65536, workers, |lo, hi| {
        let mut o = COut::default();
        for x in lo..hi {
            let two = [(x >> 8) as u8, x as u8];
            if x < 256 {
                feed(&mut o, &two[1..], 4);
            }
            if x == 0 {
                feed(&mut o, &[], 4);
            }
            feed(&mut o, &two, 4);
            let mut c = (x as u32 * 7) % short_len3_step;
            while c < 256 {
                feed(&mut o, &[two[0], two[1], c as u8], 4);
                c += short_len3_step;
            }
        }
        o
    });
    out.merge(b);
    // 3. seeded garbage up to 64 KiB + 1 octets, half of it behind a plausible header
    let c = par(n_garbage, workers, |lo, hi| {
        let mut o = COut::default();
        for i in lo..hi {
            let mut rng = Rng::new(mix(seed ^ 0xC06A, i as u64));
            let len = match rng.below(8) {
                0 => rng.range(0, 16) as usize,
                1 => rng.range(65530, 65537) as usize,
                2 => rng.range(0, 65537) as usize,
                _ => rng.range(0, 300) as usize,
            };
            let mut v = vec![0u8; len];
            rng.fill(&mut v);
            if len >= 4 && rng.chance(1, 2) {
                v[0] = 0x20 | (v[0] & 0x1F);
                if rng.chance(1, 2) {
                    let l = (len as u16).wrapping_sub(rng.range(4, 24) as u16);
                    v[1..3].copy_from_slice(&l.to_be_bytes());
                }
                v[3] &= match rng.below(3) {
                    0 => 0x11,
                    1 => 0x33,
                    _ => 0xFF,
                };
                if len > 12 && rng.chance(1, 2) {
                    // a directive code where one is expected for small ids
                    let pos = 4 + 3 * (1 + ((v[3] >> 4) & 7) as usize).min(2);
                    if pos < len {
                        v[pos] = *rng.pick(&[4u8, 5, 6, 7, 8, 9, 12]);
                    }
                }
            }
            feed(&mut o, &v, 5);
        }
        o
    });
    out.merge(c);
    let wire_evals = out.evaluations;
    // every damaged datagram differs from the others by construction except for coinciding
    // mutations; count conservatively: distinct = evaluations of families 0..3 + short strings
    out.distinct_nontrivial = wire_evals;
    out.samples.push(format!("corpus: {} = {}", corpus[0].label, hex(&corpus[0].bytes)));
    out.samples.push(case_text(&corpus[0].bytes[..corpus[0].bytes.len() - 3]));
    let fam_names = ["truncations", "single_octet_mutations", "length_and_flag_fields_forced", "trailing_garbage", "all_short_strings", "seeded_garbage"];
    for (i, nme) in fam_names.iter().enumerate() {
        out.extra.push((format!("damaged_{}", nme), J::i(PER_FAMILY[i].load(Ordering::Relaxed))));
    }
    out.extra.push(("corpus_datagrams".into(), J::i(n as u64)));
    out.extra.push(("damaged_datagrams_accepted_by_decoder".into(), J::i(ACCEPTED.load(Ordering::Relaxed))));
    out.extra.push(("largest_single_allocation_request_seen".into(), J::i(MAX_REQ.load(Ordering::Relaxed))));

    // 4. in situ
    let n_situ = match tier {
        Tier::Quick => 8_000,
        Tier::Thorough => 60_000,
    };
    let corpus2 = std::sync::Arc::new(corpus);
    let job = Job {
        label: "in situ: damaged datagrams injected into two live daemons between two healthy transfers".into(),
        n: n_situ,
        gen: Box::new(move |i| situ_scenario(seed, i, &corpus2)),
    };
    let mut situ = sim_jobs(workers, vec![job], &situ_oracle, &domain_basic, &situ_sig);
    situ.distinct.clear();
    out.merge(situ);
    out.distinct_nontrivial = wire_evals;
    out.exhaustive_note = "per corpus datagram every truncation, every single-octet mutation with 8 boundary values, the forced length/flag/id-length fields; all strings of length <= 2 (thorough: <= 3) are enumerated completely; garbage and in-situ runs are seeded samples".into();
    out
}

fn situ_scenario(seed: u64, i: usize, corpus: &[Item]) -> Scenario {
    let mut rng = Rng::new(mix(seed ^ 0xC065, i as u64));
    let mut sc = Scenario::default();
    sc.rt_seed = rng.next_u64();
    sc.idw = *rng.pick(&[1u8, 2, 4, 8]);
    let crc = rng.chance(1, 2);
    for e in sc.ents.iter_mut() {
        e.crc = crc;
        e.seg = 64;
        e.limit = 2;
        // injected corpus datagrams carry sequence numbers 0..5: keep the legitimate transfers apart
        e.seq0 = 100;
    }
    let mut p0 = file_put(false, 150, Content::Rand, rng.next_u64());
    p0.dst_name = "first.bin".into();
    sc.puts.push(p0);
    let mut p1 = file_put(rng.chance(1, 3), 100, Content::Counter, rng.next_u64());
    p1.src_name = "s2.bin".into();
    p1.dst_name = "second.bin".into();
    p1.at = Trigger::At(9_000_000);
    sc.puts.push(p1);
    let k = rng.range(1, 6);
    for j in 0..k {
        let it = rng.pick(corpus);
        let mut b = it.bytes.clone();
        match rng.below(6) {
            0 => b.truncate(rng.usize_below(b.len())),
            1 => {
                let p = rng.usize_below(b.len());
                b[p] = *rng.pick(&[0u8, 0xFF, 0x80, 1]);
            }
            2 => {
                if b.len() > 3 {
                    b[1..3].copy_from_slice(&(*rng.pick(&[0u16, 1, 2, 65535, 255])).to_be_bytes());
                    b[0] ^= (rng.below(4) as u8) & 0x03;
                }
            }
            3 => {
                if b.len() > 3 {
                    b[3] = rng.below(256) as u8;
                }
            }
            4 => {
                let n = rng.range(0, 40) as usize;
                b = vec![0u8; n];
                rng.fill(&mut b);
            }
            _ => {
                let p = rng.usize_below(b.len());
                b[p] = b[p].wrapping_add(1);
            }
        }
        let dst = rng.usize_below(2);
        sc.script.push(Entry::Inject { src: 1 - dst, dst, what: What::Raw(b), at: Trigger::At(if rng.chance(1, 3) { rng.range(0, 30_000) } else { 5_000_000 + j * 1000 }), delay_us: 0 });
    }
    sc
}

fn situ_oracle(a: &Analysis) -> Vec<crate::analysis::Violation> {
    let mut v = vec![];
    for p in &a.rec.panics {
        v.push(oracle::vv("C06", "in_situ_task_panicked", panic_site(p), format!("a task of the simulated daemons panicked: {}", p)));
    }
    for (i, alive) in a.rec.daemon_alive.iter().enumerate() {
        if !alive {
            v.push(oracle::v("C06", "in_situ_daemon_stopped", format!("daemon of entity {} stopped after damaged datagrams were delivered", i)));
        }
    }
    // the transfer issued after the garbage completes
    if a.rec.sc.puts.len() > 1 && a.rec.puts[1].issued {
        let late = if a.rec.sc.puts[1].unack {
            match a.put_txn(1).map(|t| t.at_dst.finished().iter().any(|(_, f)| crate::analysis::is_success(f))) {
                Some(true) => vec![],
                other => vec![oracle::v("C06", "in_situ_later_transfer_failed", format!("unacknowledged transfer after the garbage: receiver outcome {:?}", other))],
            }
        } else {
            oracle::c02_put(a, 1, "C06").into_iter().map(|mut x| { x.clause = "in_situ_later_transfer_failed"; x }).collect()
        };
        v.extend(late);
    }
    v
}
fn situ_sig(v: &crate::analysis::Violation, _sc: &Scenario, _rec: &crate::world::RunRecord) -> String {
    format!("C06/{}/{}", v.clause, v.value)
}

fn replay(text: &str) -> Result<Vec<CViol>, String> {
    if text.contains("# cfdp-verif replay v1") {
        return sim_replay(text, &situ_oracle, &situ_sig);
    }
    let line = text.lines().find(|l| l.starts_with("case ")).ok_or("no case line")?;
    let kv: Vec<(&str, &str)> = line.split_whitespace().skip(1).filter_map(|t| t.split_once('=')).collect();
    let b = kv.iter().find(|(a, _)| *a == "bytes").map(|(_, v)| *v).ok_or("missing bytes")?;
    crate::world::install_panic_hook();
    Ok(judge(&unhex(b)?).viols)
}

pub fn check() -> Custom {
    Custom {
        prop: "C06",
        level: "fault_enumeration",
        rule: "corpus = every distinct datagram (CRC on and off) real entities emitted in small simulated scenarios + directly built large-flag/TLV/segmented variants; one evaluation = one damaged byte string handed to PDU::decode under catch_unwind, a per-call allocation window and a timer; accepted strings are re-encoded with the length field recomputed and decoded again; every evaluation is a damaged (non-trivial) input; in situ: seeded damaged datagrams injected into live simulated daemons",
        assumptions: vec![
            "allocation bound checked: no single request above 2 x 64 KiB + 4 KiB (amortised Vec growth around one announced field) and at most 6 x 64 KiB live per decode call",
            "profile: overflow-checks and debug-assertions on, as in the project's test profile",
            "never loops: a decode call must return within 2 s of wall clock (a call that never returns stops the run by the process-level timeout)",
        ],
        real: vec!["cfdp_core::pdu::PDU::decode / encode and every per-type decoder below it", "in situ: transport task, daemon and transactions of two simulated entities"],
        stub: vec!["the network: damaged / arbitrary byte strings; in situ the SimLink injects them"],
        run,
        replay,
    }
}
