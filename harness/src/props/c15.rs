//! C15: with the CRC option on, corrupted PDUs are rejected.
//!
//! Fault enumeration on the wire seam: every CRC-protected datagram of the corpus is damaged by
//! every single-bit flip, pairs of flips, every burst up to 16 bits (both end bits set) and seeded
//! odd-weight patterns at positions after the 4 fixed header octets (CRC octets included), and
//! handed to the real decoder the way the transport's receive path does. In situ: the same kind
//! of damage on live transfers must behave like loss.

use cfdp_core::pdu::{PDUEncode, PDU};

use crate::{
    analysis::Analysis,
    checks::{in_c02_envelope, Tier},
    custom::{par, sim_jobs, sim_replay, COut, CViol, Custom},
    gen::{self, Knobs},
    json::J,
    oracle,
    prng::{mix, Rng},
    runner::Job,
    scenario::*,
    wirecorpus::{self, Item},
};

fn flip(bytes: &[u8], bits: &[u32]) -> Vec<u8> {
    let mut v = bytes.to_vec();
    for b in bits {
        let i = (*b / 8) as usize;
        if i < v.len() {
            v[i] ^= 0x80 >> (b % 8);
        }
    }
    v
}

fn case_text(orig: &[u8], bits: &[u32]) -> String {
    format!("# cfdp-verif wire v1\ncase mode=c15 orig={} flips={}\n", hex(orig), bits.iter().map(|b| b.to_string()).collect::<Vec<_>>().join(","))
}

/// a reader that returns short reads of seeded lengths (chained buffers, a stream that trickles a
/// few octets per call)
struct Trickle<'a> {
    data: &'a [u8],
    pos: usize,
    rng: Rng,
    max: usize,
}
impl std::io::Read for Trickle<'_> {
    fn read(&mut self, buf: &mut [u8]) -> std::io::Result<usize> {
        if buf.is_empty() || self.pos >= self.data.len() {
            return Ok(0);
        }
        let n = (1 + self.rng.usize_below(self.max)).min(buf.len()).min(self.data.len() - self.pos);
        buf[..n].copy_from_slice(&self.data[self.pos..self.pos + n]);
        self.pos += n;
        Ok(n)
    }
}

/// the unaltered datagram read in pieces (six fixed piece-size regimes, lengths derived from the
/// datagram itself so that a replay repeats them) must decode to the PDU the contiguous slice gives
fn short_read_check(bytes: &[u8], p: &PDU, label: &str) -> Vec<CViol> {
    let mut out = vec![];
    for k in 0..6u64 {
        let max = [1usize, 2, 3, 7, 16, 64][k as usize];
        let mut r = Trickle { data: bytes, pos: 0, rng: Rng::new(mix(crate::prng::fnv(bytes) ^ 0xC15D, k)), max };
        match PDU::decode(&mut r) {
            Ok(q) if q == *p => {}
            Ok(_) => out.push(CViol { clause: "decoded_differently_under_short_reads".into(), signature: "C15/decoded_differently_under_short_reads".into(), detail: format!("{}: read in pieces of at most {} octets the unaltered datagram decodes to a different PDU", label, max), replay: case_text(bytes, &[]) }),
            Err(e) => out.push(CViol { clause: "unaltered_pdu_rejected".into(), signature: "C15/unaltered_pdu_rejected/short_reads".into(), detail: format!("{}: read in pieces of at most {} octets the unaltered datagram is rejected: {}", label, max, e), replay: case_text(bytes, &[]) }),
        }
    }
    out
}

fn kind_name(p: &PDU) -> &'static str {
    crate::world::kind_of(p).name()
}

/// None = fine. `family` is only used for the signature.
fn check(orig: &[u8], origp: &PDU, bits: &[u32], family: &str) -> Option<CViol> {
    let damaged = flip(orig, bits);
    // a decoder panic is not an acceptance (it is C06's subject); counted, not judged here
    let res = match std::panic::catch_unwind(|| PDU::decode(&mut damaged.as_slice())) {
        Ok(r) => r,
        Err(_) => {
            PANICS.fetch_add(1, std::sync::atomic::Ordering::Relaxed);
            return None;
        }
    };
    match res {
        Err(_) => None,
        Ok(p) if &p == origp => None,
        Ok(p) => Some(CViol {
            clause: "corrupted_pdu_accepted_as_different".into(),
            signature: format!("C15/corrupted_pdu_accepted_as_different/{}/{}", kind_name(origp), family),
            detail: format!("{} datagram of {} octets with bits {:?} flipped is accepted as a different PDU: {}", kind_name(origp), orig.len(), bits, crate::analysis::describe(&p)),
            replay: case_text(orig, bits),
        }),
    }
}

static PANICS: std::sync::atomic::AtomicU64 = std::sync::atomic::AtomicU64::new(0);

struct Unit {
    item: usize,
    /// 0 single, 1 pairs, 2 bursts, 3 odd-weight random
    family: u8,
    lo: u32,
    hi: u32,
}

fn run(tier: Tier, seed: u64, workers: usize) -> COut {
    let root = camino::Utf8PathBuf::from(format!("/dev/shm/cfdp-verif/{}/corpus", std::process::id()));
    let corpus: Vec<Item> = wirecorpus::build(&root, Some(true));
    let _ = std::fs::remove_dir_all(&root);
    let mut out = COut::default();
    let parsed: Vec<PDU> = corpus
        .iter()
        .filter_map(|it| PDU::decode(&mut it.bytes.as_slice()).ok())
        .collect();
    if parsed.len() != corpus.len() {
        // an unaltered PDU is always accepted
        for it in &corpus {
            if let Err(e) = PDU::decode(&mut it.bytes.as_slice()) {
                out.viol(CViol { clause: "unaltered_pdu_rejected".into(), signature: "C15/unaltered_pdu_rejected".into(), detail: format!("{}: {}", it.label, e), replay: case_text(&it.bytes, &[]) });
            }
        }
        return out;
    }
    // "an unaltered PDU is always accepted", however the octets reach the decoder
    for (it, p) in corpus.iter().zip(parsed.iter()) {
        out.evaluations += 6;
        for v in short_read_check(&it.bytes, p, &it.label) {
            out.viol(v);
        }
    }
    for (it, p) in corpus.iter().zip(parsed.iter()) {
        if p.clone().encode() != it.bytes {
            out.harness_errors.push(format!("corpus datagram {} is not the encoding of its own decoding", it.label));
        }
    }
    let (burst_max, full16_items, n_odd) = match tier {
        Tier::Quick => (8u32, 0usize, 2_000u32),
        Tier::Thorough => (12u32, 12usize, 60_000u32),
    };
    // which datagrams get the complete <=16 enumeration in the thorough tier: the shortest of each kind
    let mut by_kind: std::collections::BTreeMap<&'static str, usize> = Default::default();
    for (i, p) in parsed.iter().enumerate() {
        let k = kind_name(p);
        let e = by_kind.entry(k).or_insert(i);
        if corpus[i].bytes.len() < corpus[*e].bytes.len() {
            *e = i;
        }
    }
    let full16: std::collections::HashSet<usize> = by_kind.values().copied().take(full16_items.max(if full16_items > 0 { 99 } else { 0 })).collect();
    let mut units: Vec<Unit> = vec![];
    for (i, it) in corpus.iter().enumerate() {
        let nbits = it.bytes.len() as u32 * 8;
        units.push(Unit { item: i, family: 0, lo: 32, hi: nbits });
        let step = 64;
        let mut s = 32;
        while s < nbits {
            units.push(Unit { item: i, family: 1, lo: s, hi: (s + step).min(nbits) });
            units.push(Unit { item: i, family: 2, lo: s, hi: (s + step).min(nbits) });
            s += step;
        }
        units.push(Unit { item: i, family: 3, lo: 0, hi: n_odd });
    }
    let nunits = units.len();
    let mut res = par(nunits, workers, |lo, hi| {
        let mut o = COut::default();
        let mut counts = [0u64; 4];
        for u in &units[lo..hi] {
            let it = &corpus[u.item];
            let p = &parsed[u.item];
            let nbits = it.bytes.len() as u32 * 8;
            match u.family {
                0 => {
                    for b in u.lo..u.hi {
                        counts[0] += 1;
                        if let Some(v) = check(&it.bytes, p, &[b], "single") {
                            o.viol(v);
                        }
                    }
                }
                1 => {
                    // all pairs for short datagrams, pairs within a 64-bit window otherwise
                    let all = it.bytes.len() <= 64;
                    for a in u.lo..u.hi {
                        let top = if all { nbits } else { (a + 64).min(nbits) };
                        for b in (a + 1)..top {
                            counts[1] += 1;
                            if let Some(v) = check(&it.bytes, p, &[a, b], "pair") {
                                o.viol(v);
                            }
                        }
                    }
                }
                2 => {
                    let maxl = if full16.contains(&u.item) { 16 } else { burst_max };
                    for s in u.lo..u.hi {
                        for l in 2..=maxl {
                            if s + l > nbits {
                                break;
                            }
                            let inner = l - 2;
                            for pat in 0..(1u32 << inner) {
                                let mut bits = Vec::with_capacity(l as usize);
                                bits.push(s);
                                for k in 0..inner {
                                    if pat >> k & 1 == 1 {
                                        bits.push(s + 1 + k);
                                    }
                                }
                                bits.push(s + l - 1);
                                counts[2] += 1;
                                if let Some(v) = check(&it.bytes, p, &bits, "burst") {
                                    o.viol(v);
                                }
                            }
                        }
                    }
                }
                _ => {
                    let mut rng = Rng::new(mix(seed ^ 0xC15D, u.item as u64));
                    for _ in 0..u.hi {
                        let w = *rng.pick(&[3u32, 5, 7]);
                        let mut bits: Vec<u32> = vec![];
                        while (bits.len() as u32) < w {
                            let b = 32 + rng.below((nbits - 32) as u64) as u32;
                            if !bits.contains(&b) {
                                bits.push(b);
                            }
                        }
                        counts[3] += 1;
                        if let Some(v) = check(&it.bytes, p, &bits, "odd") {
                            o.viol(v);
                        }
                    }
                }
            }
        }
        o.evaluations = counts.iter().sum();
        o.extra.push(("patterns_single_bit".into(), J::i(counts[0])));
        o.extra.push(("patterns_pairs".into(), J::i(counts[1])));
        o.extra.push(("patterns_bursts".into(), J::i(counts[2])));
        o.extra.push(("patterns_odd_weight".into(), J::i(counts[3])));
        o
    });
    crate::props::sum_extras(&mut res);
    // every (datagram, pattern) pair is a distinct damaged datagram; all are non-trivial
    res.distinct_nontrivial = res.evaluations;
    res.samples = corpus.iter().take(3).map(|it| format!("{}: {}", it.label, hex(&it.bytes))).collect();
    res.samples.push(case_text(&corpus[0].bytes, &[40, 41, 47]));
    let mut kinds: std::collections::BTreeMap<String, u64> = Default::default();
    for p in &parsed {
        *kinds.entry(kind_name(p).to_string()).or_insert(0) += 1;
    }
    let mut kj = J::obj();
    for (k, n) in kinds {
        kj.set(&k, J::i(n));
    }
    res.extra.push(("corpus_datagrams".into(), J::i(corpus.len() as u64)));
    res.extra.push(("corpus_kinds".into(), kj));
    res.extra.push(("corpus_large_flag".into(), J::i(parsed.iter().filter(|p| p.header.large_file_flag == cfdp_core::pdu::FileSizeFlag::Large).count() as u64)));
    res.extra.push(("decoder_panics_on_damaged_input_counted_as_rejection_see_C06".into(), J::i(PANICS.load(std::sync::atomic::Ordering::Relaxed))));
    res.extra.push(("burst_max_len_all".into(), J::i(burst_max)));
    res.extra.push(("datagrams_with_full_16_bit_bursts".into(), J::i(full16.len() as u64)));
    out.merge(res);
    out.distinct_nontrivial = out.evaluations;

    // in situ: corruption on live transfers behaves as loss (completion inside the C02 envelope)
    let n_situ = match tier {
        Tier::Quick => 4_000,
        Tier::Thorough => 200_000,
    };
    let job = Job {
        label: "in situ: CRC on, fewer than `limit` corrupted PDUs (1-3 flips or a burst <= 16 at octets >= 4), transfer must complete as under loss".into(),
        n: n_situ,
        gen: Box::new(move |i| {
            let mut rng = Rng::new(mix(seed ^ 0xC15A, i as u64));
            let k = Knobs { unack: Some(false), crc: Some(true), limit_min: 2, ..Knobs::default() };
            let mut sc = gen::pair_cfg(&mut rng, &k);
            gen::add_file_put(&mut sc, &mut rng, &k, 0, 1, 0);
            let prof = crate::checks::estimate_profile(&sc);
            let lim = gen::min_limit(&sc);
            let n = rng.range(1, (lim - 1) as u64);
            for _ in 0..n {
                let (s, d, idx) = if rng.chance(2, 3) { (0, 1, rng.below(prof.fwd.len() as u64 + 2) as u32) } else { (1, 0, rng.below(prof.rev.len() as u64 + 2) as u32) };
                let start = 32 + rng.below(400) as u32;
                let bits: Vec<u32> = match rng.below(3) {
                    0 => vec![start],
                    1 => vec![start, start + 1 + rng.below(40) as u32],
                    _ => {
                        let l = rng.range(2, 16) as u32;
                        let mut b = vec![start, start + l - 1];
                        for k in 1..l - 1 {
                            if rng.chance(1, 2) {
                                b.push(start + k);
                            }
                        }
                        b
                    }
                };
                sc.script.push(Entry::Fault { src: s, dst: d, sel: Sel::Nth(idx), act: Act::Flip { bits } });
            }
            sc
        }),
    };
    let situ = sim_jobs(workers, vec![job], &situ_oracle, &in_c02_envelope, &situ_sig);
    let situ_runs = situ.evaluations;
    let mut situ = situ;
    situ.distinct.clear();
    out.merge(situ);
    out.distinct_nontrivial = out.evaluations - situ_runs;
    out.exhaustive_note = "per corpus datagram: all single-bit flips, all pairs (datagrams <= 64 octets) or all pairs within 64 bits, all bursts up to the stated length at every position >= octet 4 are enumerated completely; odd-weight patterns and the in-situ runs are seeded samples".into();
    out
}

fn situ_oracle(a: &Analysis) -> Vec<crate::analysis::Violation> {
    let mut v: Vec<crate::analysis::Violation> = oracle::c02(a).into_iter().chain(oracle::c01(a)).collect();
    for x in v.iter_mut() {
        x.prop = "C15";
    }
    // a damaged datagram must never be handed to a transaction as a PDU other than the original
    for r in &a.recvs {
        if let Some(p) = &r.pdu {
            let sent = a.sends.iter().find(|s| s.seq == r.send_seq);
            if let Some(s) = sent {
                if let Some(sp) = &s.pdu {
                    if sp.as_ref() != p.as_ref() {
                        v.push(oracle::v("C15", "in_situ_accepted_as_different", format!("datagram sent at seq {} as {} was accepted at seq {} as {}", s.seq, crate::analysis::describe(sp), r.seq, crate::analysis::describe(p))));
                    }
                }
            }
        }
    }
    v
}
fn situ_sig(v: &crate::analysis::Violation, sc: &Scenario, rec: &crate::world::RunRecord) -> String {
    format!("C15/in_situ/{}", crate::cli::signature(v, sc, rec))
}

fn replay(text: &str) -> Result<Vec<CViol>, String> {
    if text.contains("# cfdp-verif replay v1") {
        return sim_replay(text, &situ_oracle, &situ_sig);
    }
    let line = text.lines().find(|l| l.starts_with("case ")).ok_or("no case line")?;
    let kv: Vec<(&str, &str)> = line.split_whitespace().skip(1).filter_map(|t| t.split_once('=')).collect();
    let get = |k: &str| kv.iter().find(|(a, _)| *a == k).map(|(_, v)| *v).ok_or(format!("missing {k}"));
    let orig = unhex(get("orig")?)?;
    let f = get("flips").unwrap_or("");
    let bits: Vec<u32> = f.split(',').filter(|x| !x.is_empty()).map(|x| x.parse::<u32>().map_err(|e| e.to_string())).collect::<Result<_, _>>()?;
    let p = match PDU::decode(&mut orig.as_slice()) {
        Ok(p) => p,
        Err(e) => {
            return Ok(vec![CViol { clause: "unaltered_pdu_rejected".into(), signature: "C15/unaltered_pdu_rejected".into(), detail: e.to_string(), replay: text.to_string() }]);
        }
    };
    if bits.is_empty() {
        return Ok(short_read_check(&orig, &p, "replayed datagram"));
    }
    let fam = match bits.len() {
        1 => "single",
        2 => "pair",
        _ => {
            let (mn, mx) = (bits.iter().min().copied().unwrap_or(0), bits.iter().max().copied().unwrap_or(0));
            if mx - mn < 16 {
                "burst"
            } else {
                "odd"
            }
        }
    };
    Ok(check(&orig, &p, &bits, fam).into_iter().collect())
}

pub fn check_entry() -> Custom {
    Custom {
        prop: "C15",
        level: "fault_enumeration",
        rule: "corpus = every distinct CRC-protected datagram real entities emitted in 40 small simulated scenarios (4 id widths; metadata with TLVs, data, EOF, EOF-cancel, ACKs, NAK, Finished with responses, prompts, keep-alive) + directly built large-file-flag and TLV variants; one evaluation = one (datagram, flip pattern) handed to PDU::decode; every evaluation is a distinct damaged datagram and non-trivial (at least one bit differs)",
        assumptions: vec![
            "flips only at positions >= octet 4 (the statement excludes the fixed header octets), CRC octets included",
            "datagrams <= 1.1 KiB, far below the 4095-octet limit of the polynomial's 2-bit guarantee",
            "accepting the damaged datagram as exactly the original PDU is allowed (spare bits)",
        ],
        real: vec!["cfdp_core::pdu::PDU::decode / encode / CRC-16", "in situ: the full simulated pair of daemons"],
        stub: vec!["the channel: bit flips applied to captured datagrams; in situ the SimLink"],
        run,
        replay,
    }
}
