//! C07: the sender transmits exactly the source file: right bytes, offsets, sizes, checksum.
//!
//! Scenario family S-tx: a real sending daemon and a scripted (possibly non-conforming) receiver
//! that fires NAKs of arbitrary shape at arbitrary points of the exchange (the link has a
//! serialisation time, so a first pass lasts many link events), acknowledges EOF or not, and
//! finishes the transaction or not. The oracle is a monitor over everything the sender hands to
//! the transport; it is also active in every two-daemon run.

use cfdp_core::pdu::{Condition, DeliveryCode, Direction, FileStatusCode, Operations, TransmissionMode};

use crate::{
    analysis::{fd_range, op_of, Analysis, IntervalSet, Txn, Violation},
    checks::{common_probes, domain_basic, safety_cross, Check, Tier, REAL_SIM, STUB_SIM},
    content,
    gen::{self, Knobs},
    oracle::{v, vv},
    pdus::Hdr,
    prng::{mix, Rng},
    runner::{Ctx, Job},
    scenario::*,
    world::kind_of,
};

/// one NAK of arbitrary shape for a file of `size` bytes sent with segment size `seg`
pub fn draw_nak(rng: &mut Rng, size: u64, seg: u64) -> ((u64, u64), Vec<(u64, u64)>) {
    let n = rng.below(6);
    let mut reqs = vec![];
    for _ in 0..n {
        let r = match rng.below(12) {
            0 => (0, 0),
            1 => {
                let a = rng.below(size + 1);
                (a, a)
            }
            2 => {
                // inverted
                let a = rng.below(size + 1);
                (a + 1 + rng.below(9), a)
            }
            3 => {
                // straddles the end of the file
                let a = size.saturating_sub(rng.below(seg + 1));
                (a, size + 1 + rng.below(2 * seg))
            }
            4 => {
                // entirely beyond the end
                let a = size + rng.below(3 * seg);
                (a, a + 1 + rng.below(2 * seg))
            }
            5 => {
                // longer than a segment
                let a = rng.below(size + 1);
                (a, (a + seg + 1 + rng.below(3 * seg)).min(size.max(a + 1)))
            }
            6 => {
                // segment aligned
                let k = rng.below(size / seg + 1);
                (k * seg, ((k + 1) * seg).min(size.max(k * seg + 1)))
            }
            7 => (0, size),
            _ => {
                let a = rng.below(size + 1);
                let b = a + 1 + rng.below(seg + 3);
                (a, b.min(size.max(a + 1)))
            }
        };
        reqs.push(r);
        if rng.chance(1, 6) {
            reqs.push(r); // duplicate request
        }
    }
    if rng.chance(1, 3) {
        reqs.reverse(); // unsorted
    }
    let scope = if rng.chance(1, 4) { (rng.below(size + 1), rng.below(size + 1)) } else { (0, size) };
    (scope, reqs)
}

/// real sender (entity 0), scripted receiver (entity 1)
pub fn tx_scenario(seed: u64, i: usize) -> Scenario {
    let mut rng = Rng::new(mix(seed ^ 0xC07A, i as u64));
    let k = Knobs { unack: Some(false), stale_dest: false, ..Knobs::default() };
    let mut sc = gen::pair_cfg(&mut rng, &k);
    sc.family = "tx".into();
    sc.ents[1].real = false;
    if rng.chance(3, 4) {
        sc.ser_us = *rng.pick(&[50u64, 200, 1000]);
    }
    gen::add_file_put(&mut sc, &mut rng, &k, 0, 1, 0);
    let put = sc.puts[0].clone();
    let size = put.file.as_ref().unwrap().size;
    let seg = sc.ents[0].seg as u64;
    let npdu = (size.div_ceil(seg) + 2) as u32;
    let e0 = sc.ents[0].clone();
    let h = Hdr { idw: sc.idw, src: 1, seq: e0.seq0, dst: 2, unack: false, crc: e0.crc, large: false };
    let nn = rng.below(7);
    for _ in 0..nn {
        let (scope, reqs) = draw_nak(&mut rng, size, seg);
        let at = match rng.below(5) {
            0 => Trigger::AfterKind { src: 0, dst: 1, kind: Kind::Eof, k: rng.below(2) as u32 },
            1 => Trigger::AfterKind { src: 0, dst: 1, kind: Kind::Md, k: 0 },
            _ => Trigger::AfterPdu { src: 0, dst: 1, n: rng.below(npdu as u64 + 3) as u32 },
        };
        sc.script.push(Entry::Inject { src: 1, dst: 0, what: What::Raw(h.nak(scope, &reqs)), at, delay_us: *rng.pick(&[0u64, 0, 100, 5000, 300_000]) });
    }
    // the scripted receiver acknowledges the first EOF (usually) ...
    if rng.chance(3, 4) {
        sc.script.push(Entry::Inject { src: 1, dst: 0, what: What::Raw(h.ack_eof(Condition::NoError)), at: Trigger::AfterKind { src: 0, dst: 1, kind: Kind::Eof, k: rng.below(2) as u32 }, delay_us: *rng.pick(&[0u64, 1000, 600_000]) });
    }
    // ... and finishes the transaction (usually), after a while
    if rng.chance(3, 4) {
        sc.script.push(Entry::Inject {
            src: 1,
            dst: 0,
            what: What::Raw(h.finished(Condition::NoError, DeliveryCode::Complete, FileStatusCode::Retained)),
            at: Trigger::AfterKind { src: 0, dst: 1, kind: Kind::Eof, k: 0 },
            delay_us: *rng.pick(&[2_000u64, 700_000, 2_500_000]),
        });
    }
    if rng.chance(1, 8) {
        sc.script.push(Entry::User { ent: 0, op: UserOp::Cancel, put: 0, at: Trigger::AfterPdu { src: 0, dst: 1, n: rng.below(npdu as u64 + 2) as u32 } });
    }
    sc
}

fn build(_ctx: &Ctx, tier: Tier, seed: u64) -> Vec<Job<'static>> {
    let (n_tx, n_pair) = match tier {
        Tier::Quick => (100_000, 20_000),
        Tier::Thorough => (2_000_000, 400_000),
    };
    let j0 = Job { label: "real sender vs scripted receiver: NAKs of arbitrary shape at arbitrary points (also mid first pass), EOF acknowledged or not, Finished or not, occasional cancel".into(), n: n_tx, gen: Box::new(move |i| tx_scenario(seed, i)) };
    let j1 = Job {
        label: "two real daemons under unbounded loss/dup/delay (genuine NAK traffic)".into(),
        n: n_pair,
        gen: Box::new(move |i| {
            let mut rng = Rng::new(mix(seed ^ 0xC07B, i as u64));
            let k = Knobs { max_segments: 40, ..Knobs::default() };
            let mut sc = gen::pair_cfg(&mut rng, &k);
            gen::add_file_put(&mut sc, &mut rng, &k, 0, 1, 0);
            let prof = crate::checks::estimate_profile(&sc);
            sc.script = gen::wild_script(&mut rng, &sc, &prof, 0, 1);
            sc
        }),
    };
    vec![j0, j1]
}

// ---------------------------------------------------------------------------------------------

pub fn c07(a: &Analysis) -> Vec<Violation> {
    let mut out = vec![];
    for t in a.txns.values() {
        let Some(pi) = t.put else { continue };
        if !a.rec.sc.ents[t.src_ent].real {
            continue;
        }
        c07_txn(a, t, pi, &mut out);
    }
    out
}

fn c07_txn(a: &Analysis, t: &Txn, pi: usize, out: &mut Vec<Violation>) {
    let sc = &a.rec.sc;
    let put = &sc.puts[pi];
    let e = &sc.ents[put.src];
    let seg = e.seg as u64;
    let empty: Vec<u8> = vec![];
    let src: &Vec<u8> = a.rec.puts[pi].source.as_deref().unwrap_or(&empty);
    let is_file = put.file.is_some();
    let size = src.len() as u64;
    let cancelled_by_user = a.rec.events.iter().any(|ev| matches!(&ev.k, crate::world::EvKind::User { op: UserOp::Cancel, id, accepted: true, ent, .. } if *id == t.key && *ent == put.src));

    // requests delivered to the sender so far: (delivery seq, delivery vt, a, b)
    let mut delivered: Vec<(u64, u64, u64, u64)> = vec![];
    for r in &t.at_src.recvd {
        if let Some(Operations::Nak(n)) = r.pdu.as_ref().and_then(|p| op_of(p)) {
            for q in &n.segment_requests {
                delivered.push((r.seq, r.vt, q.start_offset, q.end_offset));
            }
        }
    }
    let mut cursor = 0u64; // next first-pass offset
    let mut first_pass_done_at: Option<u64> = None;
    let mut md_count = 0;
    let mut fds: Vec<(u64, u64, u64, bool)> = vec![]; // (seq, a, b, first_pass)
    for s in &t.at_src.sent {
        let Some(p) = &s.pdu else { continue };
        // (e) every PDU: identifiers, mode, direction, flags, length field
        let hd = &p.header;
        let want_mode = if put.unack { TransmissionMode::Unacknowledged } else { TransmissionMode::Acknowledged };
        if hd.source_entity_id.to_u64() != t.key.0 || hd.transaction_sequence_number.to_u64() != t.key.1 || hd.destination_entity_id.to_u64() != put.dst as u64 + 1 {
            out.push(v("C07", "wrong_identifiers", format!("txn {:?}: PDU at seq {} carries ids ({},{})->{}", t.key, s.seq, hd.source_entity_id.to_u64(), hd.transaction_sequence_number.to_u64(), hd.destination_entity_id.to_u64())));
        }
        if hd.transmission_mode != want_mode || hd.direction != Direction::ToReceiver {
            out.push(v("C07", "wrong_mode_or_direction", format!("txn {:?}: PDU at seq {} has mode {:?} direction {:?}", t.key, s.seq, hd.transmission_mode, hd.direction)));
        }
        if (hd.crc_flag == cfdp_core::pdu::CRCFlag::Present) != e.crc {
            out.push(v("C07", "wrong_crc_flag", format!("txn {:?}: PDU at seq {} has CRC flag {:?}, configured {}", t.key, s.seq, hd.crc_flag, e.crc)));
        }
        if (hd.large_file_flag == cfdp_core::pdu::FileSizeFlag::Large) != (size > u32::MAX as u64) {
            out.push(v("C07", "wrong_large_file_flag", format!("txn {:?}: PDU at seq {} has large flag {:?} for a file of {} bytes", t.key, s.seq, hd.large_file_flag, size)));
        }
        let idl = 2 * match sc.idw {
            1 => 1usize,
            2 => 2,
            4 => 4,
            _ => 8,
        } + match sc.idw {
            1 => 1usize,
            2 => 2,
            4 => 4,
            _ => 8,
        };
        let payload_on_wire = s.bytes.len().saturating_sub(4 + idl + if e.crc { 2 } else { 0 });
        if hd.pdu_data_field_length as usize != payload_on_wire {
            out.push(v("C07", "length_field_differs_from_payload", format!("txn {:?}: PDU at seq {} announces {} payload octets, {} are on the wire", t.key, s.seq, hd.pdu_data_field_length, payload_on_wire)));
        }
        match kind_of(p) {
            Kind::Fd => {
                let Some((x, y, data)) = fd_range(p) else { continue };
                let len = y - x;
                // (a) bytes, segment size, end of file
                if len > seg {
                    out.push(v("C07", "segment_longer_than_configured", format!("txn {:?}: file data [{},{}) at seq {} exceeds the segment size {}", t.key, x, y, s.seq, seg)));
                }
                if y > size || x > size {
                    out.push(vv("C07", "data_beyond_end_of_file", if len == 0 { "empty".into() } else { "bytes".into() }, format!("txn {:?}: file data PDU [{},{}) at seq {} lies beyond the end of the {}-byte file", t.key, x, y, s.seq, size)));
                } else if data != &src[x as usize..y as usize] {
                    out.push(v("C07", "wrong_bytes", format!("txn {:?}: file data [{},{}) at seq {} differs from the source file", t.key, x, y, s.seq)));
                }
                // (b)/(c) first pass or NAK answer
                let is_first = first_pass_done_at.is_none() && x == cursor && len == seg.min(size - cursor.min(size)) && (len > 0 || size == 0);
                if is_first {
                    cursor += len;
                    fds.push((s.seq, x, y, true));
                } else {
                    fds.push((s.seq, x, y, false));
                    if len > 0 {
                        let inside = delivered.iter().any(|(q, _, ra, rb)| *q < s.seq && *ra <= x && y <= *rb);
                        if !inside {
                            out.push(vv(
                                "C07",
                                "data_neither_first_pass_nor_requested",
                                if first_pass_done_at.is_some() { "after_eof".into() } else { "during_first_pass".into() },
                                format!("txn {:?}: file data [{},{}) at seq {} is not the next first-pass segment (cursor {}) and lies in no range requested before", t.key, x, y, s.seq, cursor),
                            ));
                        }
                    }
                }
            }
            Kind::Md => {
                md_count += 1;
                if let Some(Operations::Metadata(m)) = op_of(p) {
                    let want_src = a.rec.sc.puts[pi].src_name.clone();
                    if m.file_size != size || (!want_src.contains('{') && m.source_filename.as_str() != want_src) || m.destination_filename.as_str() != put.dst_name || m.closure_requested != e.closure || (m.checksum_type == cfdp_core::filestore::ChecksumType::Null) != e.null_cksum {
                        out.push(v("C07", "metadata_wrong", format!("txn {:?}: metadata at seq {} says size {} {}->{} closure {} checksum {:?}; true: size {} {}->{} closure {} null {}", t.key, s.seq, m.file_size, m.source_filename, m.destination_filename, m.closure_requested, m.checksum_type, size, put.src_name, put.dst_name, e.closure, e.null_cksum)));
                    }
                    if md_count > 1 {
                        // a re-sent metadata answers a (0,0) request
                        let asked = delivered.iter().any(|(q, _, ra, rb)| *q < s.seq && *ra == 0 && *rb == 0);
                        if !asked {
                            out.push(v("C07", "metadata_resent_unasked", format!("txn {:?}: metadata sent again at seq {} without a (0,0) request", t.key, s.seq)));
                        }
                    }
                }
            }
            Kind::Eof => {
                if let Some(Operations::EoF(eof)) = op_of(p) {
                    let want_ck = if e.null_cksum || !is_file { 0 } else { content::modular_checksum(src) };
                    if eof.file_size != size || eof.checksum != want_ck {
                        out.push(v("C07", "eof_wrong_size_or_checksum", format!("txn {:?}: EOF at seq {} says size {} checksum {:08x}; the file has {} bytes, checksum {:08x}", t.key, s.seq, eof.file_size, eof.checksum, size, want_ck)));
                    }
                    if eof.condition == Condition::NoError {
                        if eof.fault_location.is_some() {
                            out.push(v("C07", "eof_fault_location_without_error", format!("txn {:?}: EOF(NoError) at seq {} carries a fault location", t.key, s.seq)));
                        }
                        // (b) tiling: the first pass is complete when the first EOF goes out
                        if first_pass_done_at.is_none() {
                            first_pass_done_at = Some(s.seq);
                            if is_file && cursor != size {
                                out.push(v("C07", "first_pass_incomplete_at_eof", format!("txn {:?}: EOF at seq {} but the first pass reached offset {} of {}", t.key, s.seq, cursor, size)));
                            }
                        }
                        // (c) every request delivered at an earlier instant has been answered in full
                        // (a PDU is logged on the link up to one serialisation time after the
                        // transaction created it, and tokio timers have 1 ms resolution: only an EOF
                        // logged well after the delivery was certainly created after the request
                        // had been processed, i.e. with an empty retransmission queue)
                        let ser = sc.ser_us + sc.ser_ns_byte * (seg + 64) / 1000;
                        let ser_eff = if ser == 0 { 0 } else { ser.div_ceil(1000) * 1000 };
                        for (q, qvt, ra, rb) in &delivered {
                            if *qvt + 2 * ser_eff + 1000 >= s.vt || ra >= rb {
                                continue;
                            }
                            let (wa, wb) = (*ra, (*rb).min(size));
                            if wa >= wb {
                                continue;
                            }
                            let mut cov = IntervalSet::default();
                            for (fs, x, y, _) in &fds {
                                if *fs > *q {
                                    cov.insert(*x, *y);
                                }
                            }
                            if !cov.covers(wa, wb) {
                                out.push(v("C07", "nak_not_answered_before_eof", format!("txn {:?}: request [{},{}) delivered at seq {} was answered only by {:?} when EOF went out at seq {}", t.key, ra, rb, q, cov.gaps(wa, wb), s.seq)));
                            }
                        }
                    } else {
                        if eof.fault_location.map(|f| f.to_u64()) != Some(t.key.0) {
                            out.push(v("C07", "eof_cancel_without_fault_location", format!("txn {:?}: EOF({:?}) at seq {} has fault location {:?}", t.key, eof.condition, s.seq, eof.fault_location)));
                        }
                        if cancelled_by_user && eof.condition != Condition::CancelReceived && !t.at_src.inds.iter().any(|i| matches!(&i.ind, cfdp_core::daemon::Indication::Fault(_))) {
                            out.push(v("C07", "eof_cancel_wrong_condition", format!("txn {:?}: user cancel, EOF at seq {} carries {:?}", t.key, s.seq, eof.condition)));
                        }
                    }
                }
            }
            _ => {}
        }
    }
    // retransmissions never invent: the number of answer rounds for a byte is at most the number
    // of times it was requested (+ the first pass)
    if size > 0 && size <= 1 << 20 && !fds.is_empty() {
        let mut sent = vec![0u32; size as usize];
        for (_, x, y, _) in &fds {
            for b in (*x).min(size)..(*y).min(size) {
                sent[b as usize] += 1;
            }
        }
        let mut asked = vec![1u32; size as usize];
        for (_, _, ra, rb) in &delivered {
            if ra < rb {
                for b in (*ra).min(size)..(*rb).min(size) {
                    asked[b as usize] += 1;
                }
            }
        }
        if let Some(b) = (0..size as usize).find(|b| sent[*b] > asked[*b]) {
            out.push(v("C07", "byte_sent_more_often_than_requested", format!("txn {:?}: byte {} was sent {} times, first pass + requests allow {}", t.key, b, sent[b], asked[b])));
        }
    }
}

fn probes(a: &Analysis, out: &mut Vec<&'static str>) {
    common_probes(a, out);
    for t in a.txns.values() {
        let first_eof = t.at_src.sent.iter().find(|s| s.kind == Kind::Eof).map(|s| s.seq);
        for r in &t.at_src.recvd {
            if let Some(Operations::Nak(n)) = r.pdu.as_ref().and_then(|p| op_of(p)) {
                if first_eof.map(|e| r.seq < e).unwrap_or(true) {
                    out.push("nak_delivered_during_first_pass");
                }
                for q in &n.segment_requests {
                    if q.start_offset > q.end_offset {
                        out.push("nak_inverted_range_delivered");
                    }
                    if q.start_offset == q.end_offset && q.start_offset != 0 {
                        out.push("nak_empty_range_delivered");
                    }
                }
            }
        }
        for s in &t.at_src.sent {
            if let Some((x, y, _)) = s.pdu.as_ref().and_then(|p| fd_range(p)) {
                if x == y {
                    out.push("empty_filedata_pdu");
                }
            }
        }
        if t.at_src.sent.iter().filter(|s| s.kind == Kind::Md).count() > 1 {
            out.push("metadata_resent");
        }
    }
    out.sort();
    out.dedup();
}

pub fn check() -> Check {
    Check {
        prop: "C07",
        level: "exploration",
        rule: "one run = (configuration, file, NAK script) from VERIF_SEED: real sender against a scripted receiver that sends 0..6 NAK PDUs of arbitrary shape (empty list, (0,0), empty and inverted ranges, overlapping, duplicate, unsorted, longer than a segment, straddling or beyond end of file) triggered after any PDU index (link serialisation time > 0 in 3/4 of the runs, so NAKs land during the first pass), optional ACK(EOF), Finished and user cancel; plus two real daemons under wild link faults; every PDU the sender hands to the transport is checked; non-trivial = a fault fired, a PDU was injected or a user operation landed; distinct = distinct history fingerprint",
        assumptions: vec![
            "the source file is not modified during the transfer",
            "NAK ranges reach at most a few segments beyond the end of the file (astronomically long ranges are bounded to keep the checker alive)",
            "an empty file-data PDU at an offset inside the file (or at its end) is tolerated and counted (probe empty_filedata_pdu); any file-data PDU whose offset or end lies beyond the file is a violation",
            "'answered' is judged when the next EOF(NoError) goes out: the sender emits EOF only with an empty retransmission queue",
        ],
        oracle: Box::new(c07),
        cross: Box::new(safety_cross),
        probes: Box::new(probes),
        build,
        admissible: Box::new(domain_basic),
        real: REAL_SIM.to_vec(),
        stub: STUB_SIM.to_vec(),
    }
}
