//! C04: a completed delivery is final. Scenario jobs.
//!
//! The window "receiver has reported success, its transaction is still open" is forced by losing
//! ACK(Finished) / Finished / ACK(EOF); inside it every previously sent PDU of the forward
//! direction is re-delivered (singly, thorough: in pairs) at several offsets.

use std::sync::Arc;

use crate::{
    checks::{common_probes, domain_basic, safety_cross, Check, Tier, REAL_SIM, STUB_SIM},
    gen::{self, Knobs},
    oracle,
    prng::{mix, Rng},
    props::{file_put, pre_file, req, req_put},
    runner::{Ctx, Job},
    scenario::*,
};

fn window_bases(sc: &Scenario) -> Vec<(String, Vec<Entry>)> {
    let drop = |src: usize, dst: usize, k: Kind, n: u32| Entry::Fault { src, dst, sel: Sel::Kind(k, n), act: Act::Drop };
    let lim = gen::min_limit(sc);
    let mut v = vec![
        ("lose ACK(Finished)".to_string(), vec![drop(0, 1, Kind::AckFin, 0)]),
        ("lose Finished".to_string(), vec![drop(1, 0, Kind::Fin, 0)]),
        ("lose ACK(EOF) and Finished".to_string(), vec![drop(1, 0, Kind::AckEof, 0), drop(1, 0, Kind::Fin, 0)]),
        ("lose ACK(EOF) and ACK(Finished)".to_string(), vec![drop(1, 0, Kind::AckEof, 0), drop(0, 1, Kind::AckFin, 0)]),
    ];
    if lim >= 3 {
        v.push(("lose ACK(Finished) twice".to_string(), vec![drop(0, 1, Kind::AckFin, 0), drop(0, 1, Kind::AckFin, 1)]));
        v.push(("lose Finished twice and ACK(EOF)".to_string(), vec![drop(1, 0, Kind::Fin, 0), drop(1, 0, Kind::Fin, 1), drop(1, 0, Kind::AckEof, 0)]));
    }
    v
}

/// workloads: file transfers (with and without requests) and request-only transactions whose
/// requests are not idempotent
fn workload(sc: &mut Scenario, rng: &mut Rng, which: usize, unack: bool) {
    let seg = sc.ents[0].seg as u64;
    let sizes = [0, 1, seg, 3 * seg + 1, 2 * seg];
    let size = sizes[which % sizes.len()];
    let class = gen::draw_content(rng, seg);
    sc.pre.push(pre_file(1, "a.txt", 10, 1));
    sc.pre.push(pre_file(1, "b.txt", 7, 2));
    sc.pre.push(pre_file(1, "old.txt", 5, 3));
    let reqsets: [Vec<Req>; 5] = [
        vec![],
        vec![req(3, "a.txt", "b.txt")],
        vec![req(0, "new.txt", ""), req(3, "a.txt", "b.txt"), req(2, "old.txt", "moved.txt")],
        vec![req(3, "a.txt", "d.bin")],
        vec![req(5, "dir1", ""), req(1, "b.txt", "")],
    ];
    match which % 7 {
        5 | 6 => {
            // request-only transaction
            let rs = reqsets[1 + which % 2 * 1].clone();
            sc.puts.push(req_put(unack, rs));
        }
        k => {
            let mut p = file_put(unack, size, class, rng.next_u64());
            p.reqs = reqsets[k % reqsets.len()].clone();
            sc.puts.push(p);
        }
    }
}

fn build(ctx: &Ctx, tier: Tier, seed: u64) -> Vec<Job<'static>> {
    let (cfgs, pairs, n_rand) = match tier {
        Tier::Quick => (56, false, 40_000),
        Tier::Thorough => (140, true, 300_000),
    };
    let root = ctx.root(997);
    let mut rng = Rng::new(seed ^ 0xC045);
    let mut sweep: Vec<Scenario> = vec![];
    let mut ff: Vec<Scenario> = vec![];
    for ci in 0..cfgs {
        let unack = ci % 5 == 4;
        let k = Knobs { unack: Some(unack), closure: if unack { Some(true) } else { None }, max_segments: 4, limit_min: 2, limit_max: 4, ..Knobs::default() };
        let mut sc = gen::pair_cfg(&mut rng, &k);
        workload(&mut sc, &mut rng, ci, unack);
        // "duplicates or stragglers of ... prompts": in every third configuration the sending user
        // asks for a Prompt in mid-transfer, so that a Prompt PDU exists to be delivered again
        let prompt: Vec<Entry> = if ci % 3 == 1 && !unack {
            let op = if ci % 2 == 0 { UserOp::PromptKa } else { UserOp::PromptNak };
            vec![Entry::User { ent: 0, op, put: 0, at: Trigger::AfterPdu { src: 0, dst: 1, n: 0 } }]
        } else {
            vec![]
        };
        sc.script.extend(prompt.iter().cloned());
        ff.push(sc.clone());
        for (_label, base) in window_bases(&sc) {
            let mut b = sc.clone();
            b.script = base;
            b.script.extend(prompt.iter().cloned());
            // learn what the forward direction carried in this (faulted) exchange
            let prof = gen::profile_keep_script(&b, &root, 0, 1);
            let nfwd = prof.fwd.len() as u32;
            let t_ack = sc.ents[1].t_ack.max(1) as u64 * 1_000_000;
            let offsets = [0u64, 1, t_ack / 2, t_ack.saturating_sub(sc.lat_us + 1)];
            let at0 = Trigger::AfterInd { ent: 1, kind: IndKind::Finished, k: 0 };
            let mut singles: Vec<Entry> = vec![];
            for n in 0..nfwd {
                for off in offsets {
                    singles.push(Entry::Inject { src: 0, dst: 1, what: What::Copy { src: 0, dst: 1, n }, at: at0.clone(), delay_us: off });
                }
            }
            for e in &singles {
                let mut x = b.clone();
                x.script.push(e.clone());
                sweep.push(x);
            }
            if pairs {
                // all pairs of re-deliveries at the first two offsets
                let firsts: Vec<&Entry> = singles.iter().filter(|e| matches!(e, Entry::Inject { delay_us, .. } if *delay_us <= 1)).collect();
                for i in 0..firsts.len() {
                    for j in 0..firsts.len() {
                        if i == j {
                            continue;
                        }
                        let mut x = b.clone();
                        x.script.push(firsts[i].clone());
                        x.script.push(firsts[j].clone());
                        sweep.push(x);
                    }
                }
            }
        }
    }
    let ff = Arc::new(ff);
    let sw = Arc::new(sweep);
    let (ff2, sw2) = (ff.clone(), sw.clone());
    let j0 = Job { label: "fault-free workloads: files with request lists, request-only transactions (strict)".into(), n: ff.len(), gen: Box::new(move |i| ff2[i].clone()) };
    let j1 = Job {
        label: "window sweep: lose ACK(Finished)/Finished/ACK(EOF), re-deliver every forward PDU (thorough: every pair) at 4 offsets after the receiver's success report".into(),
        n: sw.len(),
        gen: Box::new(move |i| sw2[i].clone()),
    };
    let j2 = Job {
        label: "seeded: unbounded loss/dup/delay plus random replays after the first Finished".into(),
        n: n_rand,
        gen: Box::new(move |i| {
            let mut rng = Rng::new(mix(seed ^ 0xC04A, i as u64));
            let unack = rng.chance(1, 5);
            let k = Knobs { unack: Some(unack), closure: if unack { Some(true) } else { None }, max_segments: 8, ..Knobs::default() };
            let mut sc = gen::pair_cfg(&mut rng, &k);
            let w = rng.usize_below(35);
            workload(&mut sc, &mut rng, w, unack);
            let prof = crate::checks::estimate_profile(&sc);
            sc.script = gen::wild_script(&mut rng, &sc, &prof, 0, 1);
            if !unack && rng.chance(1, 4) {
                let op = if rng.chance(1, 2) { UserOp::PromptKa } else { UserOp::PromptNak };
                sc.script.push(Entry::User { ent: 0, op, put: 0, at: Trigger::AfterPdu { src: 0, dst: 1, n: rng.below(3) as u32 } });
            }
            // a receiver that its user has suspended still processes what arrives: the delivery may
            // complete during the suspension, and what is delivered again afterwards meets the same
            // obligations
            if !unack && rng.chance(1, 5) {
                let at = Trigger::AfterPdu { src: 0, dst: 1, n: rng.below(prof.fwd.len() as u64) as u32 };
                sc.script.push(Entry::User { ent: 1, op: UserOp::Suspend, put: 0, at: at.clone() });
                if rng.chance(2, 3) {
                    sc.script.push(Entry::User { ent: 1, op: UserOp::Resume, put: 0, at: Trigger::Plus(Box::new(at), *rng.pick(&[1000u64, 300_000, 1_500_000])) });
                }
            }
            // bias: make the window likely
            if rng.chance(2, 3) {
                sc.script.push(Entry::Fault { src: 0, dst: 1, sel: Sel::Kind(Kind::AckFin, 0), act: Act::Drop });
            }
            let nrep = rng.range(1, 4);
            for _ in 0..nrep {
                let n = rng.below(prof.fwd.len() as u64 + 2) as u32;
                let at = if rng.chance(3, 4) {
                    Trigger::AfterInd { ent: 1, kind: IndKind::Finished, k: 0 }
                } else {
                    Trigger::AfterKind { src: 1, dst: 0, kind: Kind::Fin, k: rng.below(2) as u32 }
                };
                sc.script.push(Entry::Inject { src: 0, dst: 1, what: What::Copy { src: 0, dst: 1, n }, at, delay_us: *rng.pick(&[0u64, 1, 1000, 400_000, 900_000, 2_500_000]) });
            }
            sc
        }),
    };
    vec![j0, j1, j2]
}

fn probes(a: &crate::analysis::Analysis, out: &mut Vec<&'static str>) {
    common_probes(a, out);
    // a re-delivered PDU reached the still-open receive transaction after its success report
    for t in a.txns.values() {
        let Some((si, f)) = t.at_dst.first_finished() else { continue };
        if f.report.condition != cfdp_core::pdu::Condition::NoError || f.delivery_code != cfdp_core::pdu::DeliveryCode::Complete {
            continue;
        }
        let end = t.at_dst.inds.iter().find(|i| i.seq > si.seq && matches!(&i.ind, cfdp_core::daemon::Indication::Report(r) if r.state == cfdp_core::transaction::TransactionState::Terminated)).map(|i| i.seq).unwrap_or(u64::MAX);
        for r in &t.at_dst.recvd {
            if r.seq > si.seq && r.seq < end {
                if let Some(p) = &r.pdu {
                    out.push(match crate::world::kind_of(p) {
                        Kind::Md => "window_hit_by_metadata",
                        Kind::Fd => "window_hit_by_filedata",
                        Kind::Eof => "window_hit_by_eof",
                        Kind::Prompt => "window_hit_by_prompt",
                        _ => "window_hit_by_other",
                    });
                }
            }
        }
    }
    out.sort();
    out.dedup();
}

pub fn check() -> Check {
    Check {
        prop: "C04",
        level: "fault_enumeration",
        rule: "for each grid configuration x workload (file 0/1/seg/2seg/3seg+1 bytes with or without request lists incl. append/create/rename; request-only transactions) x window-forcing loss pattern (ACK(Finished), Finished, ACK(EOF)+Finished, ACK(EOF)+ACK(Finished), double losses when limit>=3): re-deliver every PDU the sender had emitted (thorough: every ordered pair) at offsets {0, 1us, T_ack/2, T_ack-latency} after the receiver's first Finished indication; plus seeded wild scripts with replays; non-trivial = a fault fired or a PDU was injected; distinct = distinct history fingerprint",
        assumptions: vec![
            "only PDUs reaching the still-open transaction are in scope (after its end the daemon legitimately starts a new transaction: C11/C01)",
            "later non-integrity faults (PositiveLimitReached after ACK(Finished) was lost) are not violations",
            "request execution is observed at the FileStore::process_request seam",
        ],
        oracle: Box::new(oracle::c04::c04),
        cross: Box::new(safety_cross),
        probes: Box::new(probes),
        build,
        admissible: Box::new(domain_basic),
        real: REAL_SIM.to_vec(),
        stub: STUB_SIM.to_vec(),
    }
}
