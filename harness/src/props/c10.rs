//! C10: cancel ends both sides and never leaves a partial file.
//!
//! Cancel-point sweep: Cancel.request at the sender or at the receiver before the first and after
//! every PDU of the exchange, combined with every single loss among the handshake PDUs
//! (EOF(cancel), its ACK, Finished(cancel), its ACK), with a blackout from the cancel on, and with
//! cancel at both sides; plus seeded scripts.

use std::sync::Arc;

use cfdp_core::daemon::Indication;
use cfdp_core::pdu::Condition;
use cfdp_core::transaction::TransactionState;

use crate::{
    analysis::{is_success, Analysis, Side, Txn, Violation},
    checks::{common_probes, domain_basic, safety_cross, Check, Tier, REAL_SIM, STUB_SIM},
    gen::{self, Knobs},
    oracle::{self, digest, v, vv},
    prng::{mix, Rng},
    runner::{Ctx, Job},
    scenario::*,
};

struct Cancel {
    seq: u64,
    vt: u64,
}

/// the first user cancel at `ent` for this transaction that reached a live transaction there
fn effective_cancel(a: &Analysis, t: &Txn, side: &Side, ent: usize) -> Option<Cancel> {
    for e in &a.rec.events {
        if let crate::world::EvKind::User { ent: ue, op: UserOp::Cancel, id, accepted: true, .. } = &e.k {
            if *ue == ent && *id == t.key {
                let existed = side.inds.first().map(|i| i.seq < e.seq).unwrap_or(false);
                // the first incarnation only: ended before the request?
                let ended = side.inds.iter().any(|i| i.seq < e.seq && matches!(&i.ind, Indication::Report(r) if r.state == TransactionState::Terminated));
                if existed && !ended {
                    return Some(Cancel { seq: e.seq, vt: e.vt });
                }
            }
        }
    }
    None
}

/// had this side reported the transaction finished by the instant `vt`? An indication is logged a
/// few scheduler hops after the transaction computed it, so within one virtual instant the log
/// order proves nothing: a report at the same instant counts as "possibly before".
fn reported_finished_by(side: &Side, vt: u64) -> bool {
    side.inds.iter().any(|i| i.vt <= vt && matches!(&i.ind, Indication::Finished(_) | Indication::Abandon(_)))
}

/// the cancel took effect before either side had reported the transaction finished (the reporting
/// clauses are judged only then)
fn cancel_before_any_finish(side: &Side, peer_side: &Side, c: &Cancel) -> bool {
    let own_earlier = side.inds.iter().any(|i| {
        i.vt <= c.vt
            && match &i.ind {
                Indication::Finished(f) => !(i.vt == c.vt && i.seq > c.seq && f.report.condition == Condition::CancelReceived),
                Indication::Abandon(f) => !(i.vt == c.vt && i.seq > c.seq && f.condition == Condition::CancelReceived),
                _ => false,
            }
    });
    !own_earlier && !reported_finished_by(peer_side, c.vt)
}

fn cancel_condition_after(side: &Side, seq: u64) -> bool {
    side.inds.iter().filter(|i| i.seq > seq).any(|i| match &i.ind {
        Indication::Finished(f) => f.report.condition == Condition::CancelReceived,
        Indication::Abandon(f) => f.condition == Condition::CancelReceived,
        Indication::Report(r) => r.state == TransactionState::Terminated && r.condition == Condition::CancelReceived,
        _ => false,
    })
}

/// end of the first incarnation at this side after link event `seq`
fn end_after(side: &Side, seq: u64) -> Option<u64> {
    side.inds.iter().find(|i| i.seq > seq && matches!(&i.ind, Indication::Report(r) if r.state == TransactionState::Terminated)).map(|i| i.vt)
}

pub fn c10(a: &Analysis) -> Vec<Violation> {
    let mut out = vec![];
    let sc = &a.rec.sc;
    for t in a.txns.values() {
        let Some(pi) = t.put else { continue };
        let put = &sc.puts[pi];
        let Some(d) = t.dst_ent else { continue };
        if !sc.ents[t.src_ent].real || !sc.ents[d].real {
            continue;
        }
        let fsize = put.file.as_ref().map(|f| f.size).unwrap_or(0);
        let cs = effective_cancel(a, t, &t.at_src, t.src_ent);
        let cr = effective_cancel(a, t, &t.at_dst, d);
        let has_jump = sc.script.iter().any(|e| matches!(e, Entry::ClockJump { .. } | Entry::Stall { .. }));
        let suspended = sc.script.iter().any(|e| matches!(e, Entry::User { op: UserOp::Suspend, .. }));
        for (c, side, ent, peer_side, peer, role) in [(&cs, &t.at_src, t.src_ent, &t.at_dst, d, "sender"), (&cr, &t.at_dst, d, &t.at_src, t.src_ent, "receiver")] {
            let Some(c) = c else { continue };
            if has_jump {
                continue;
            }
            // (a) the cancelling entity's transaction ends within its bound
            let b = oracle::bound_us(sc, ent, fsize);
            match end_after(side, c.seq) {
                Some(end) if end <= c.vt + b => {}
                Some(end) => out.push(vv("C10", "canceller_ended_late", role.into(), format!("txn {:?}: cancel at the {} at {}us, its transaction ended at {}us, bound {}us", t.key, role, c.vt, end, b))),
                None => {
                    if a.rec.end_vt > c.vt + b {
                        out.push(vv("C10", "canceller_never_ended", role.into(), format!("txn {:?}: cancel at the {} at {}us, its transaction is still alive at {}us (bound {}us)", t.key, role, c.vt, a.rec.end_vt, b)));
                    }
                }
            }
            // "at any moment" includes a cancel of a suspended transaction: it has to end as well;
            // the remaining clauses are only judged without suspensions in the script
            if suspended {
                continue;
            }
            // (at the cancelling side a Finished / Abandon indication that carries the cancel
            // condition at the instant of the request is the request's own effect - a receiver
            // reports its cancel at once -, not a report that preceded it)
            let before_any_finish = cancel_before_any_finish(side, peer_side, c);
            if !before_any_finish {
                continue;
            }
            // the peer may have completed (receiver) at the very moment: a success report of the
            // receiver that precedes the first cancel-conditioned PDU reaching it is a legitimate race
            let receiver_completed = t.at_dst.finished().iter().any(|(_, f)| is_success(f));
            // the peer's own verdict may overrule: a Finished PDU (to a cancelling sender) or an EOF
            // (to a cancelling receiver) carrying another condition that was delivered after the cancel
            let overruled = side.recvd.iter().any(|r| {
                r.seq > c.seq
                    && match r.pdu.as_ref().and_then(|p| crate::analysis::op_of(p)) {
                        Some(cfdp_core::pdu::Operations::Finished(f)) => f.condition != Condition::CancelReceived,
                        Some(cfdp_core::pdu::Operations::EoF(e)) => e.condition != Condition::CancelReceived && e.condition != Condition::NoError,
                        _ => false,
                    }
            });
            if !cancel_condition_after(side, c.seq) && !(role == "sender" && receiver_completed) && !overruled {
                out.push(vv("C10", "canceller_does_not_report_cancel", role.into(), format!("txn {:?}: cancel took effect at the {} at seq {} before either side had finished, but none of its later Finished / Abandon / final Report indications carries CancelReceived", t.key, role, c.seq)));
            }
            // (b) the peer, where the protocol has a path to tell it and the script leaves it usable
            let path = role == "sender" || !put.unack;
            if !path || !peer_reachable(sc, ent, peer) {
                continue;
            }
            // both sides cancelling is fine: each reports a cancel
            if receiver_completed && role == "sender" {
                continue;
            }
            // the cancel reaches the peer with the first cancel-conditioned PDU delivered to it; a
            // peer that had reported the transaction finished by that instant (e.g. on an EOF that
            // was already in flight) lost the race legitimately
            let reach = peer_side.recvd.iter().find(|r| {
                r.seq > c.seq
                    && match r.pdu.as_ref().and_then(|p| crate::analysis::op_of(p)) {
                        Some(cfdp_core::pdu::Operations::Finished(f)) => f.condition == Condition::CancelReceived,
                        Some(cfdp_core::pdu::Operations::EoF(e)) => e.condition == Condition::CancelReceived,
                        _ => false,
                    }
            });
            match reach {
                Some(r) => {
                    if reported_finished_by(peer_side, r.vt) {
                        continue;
                    }
                }
                // the peer's own verdict reached the canceller before any cancel PDU got through.
                // That is a race only while the cancel can still be on its way: the canceller
                // repeats its EOF(cancel) / Finished(cancel) every ACK timeout, `limit` times, and
                // fewer than `limit` PDUs are lost in the whole run, so one of them gets through
                // within the ladder. A verdict that the peer emitted after that ladder, with no
                // cancel-conditioned PDU ever delivered to it, means the cancel was not pursued.
                None if overruled => {
                    if !put.unack {
                        let ladder = sc.ents[ent].limit.max(1) as u64 * sc.ents[ent].t_ack.max(1) as u64 * 1_000_000 + 4 * sc.lat_us + 1_000_000;
                        let verdict_sent = side
                            .recvd
                            .iter()
                            .filter(|r| {
                                r.seq > c.seq
                                    && match r.pdu.as_ref().and_then(|p| crate::analysis::op_of(p)) {
                                        Some(cfdp_core::pdu::Operations::Finished(f)) => f.condition != Condition::CancelReceived,
                                        Some(cfdp_core::pdu::Operations::EoF(e)) => e.condition != Condition::CancelReceived && e.condition != Condition::NoError,
                                        _ => false,
                                    }
                            })
                            .filter_map(|r| a.sends.iter().find(|s| s.seq == r.send_seq).map(|s| s.vt))
                            .min();
                        if let Some(vs) = verdict_sent {
                            if vs > c.vt + ladder {
                                out.push(vv("C10", "cancel_not_pursued_to_a_reachable_peer", role.into(), format!("txn {:?}: cancel took effect at the {} at {}us; no cancel-conditioned PDU was ever delivered to the reachable peer, whose own verdict was only emitted at {}us (the canceller's ladder ends at {}us)", t.key, role, c.vt, vs, c.vt + ladder)));
                            }
                        }
                    }
                    continue;
                }
                None => {}
            }
            if !peer_side.existed {
                // a receiver that never saw a PDU of the transaction has nothing to end (sender
                // cancelled before anything arrived: the EOF(cancel) creates and ends one)
                continue;
            }
            let pb = oracle::bound_us(sc, peer, fsize) + b;
            match end_after(peer_side, 0).or(peer_side.end_vt) {
                Some(end) if end <= c.vt + pb => {}
                Some(end) => out.push(vv("C10", "peer_ended_late", role.into(), format!("txn {:?}: cancel at the {} at {}us, the peer ended at {}us, bound {}us", t.key, role, c.vt, end, pb))),
                None => {
                    if a.rec.end_vt > c.vt + pb && peer_side.alive_at_end == Some(true) {
                        out.push(vv("C10", "peer_never_ended", role.into(), format!("txn {:?}: cancel at the {} at {}us, the peer's transaction is still alive at {}us", t.key, role, c.vt, a.rec.end_vt)));
                    }
                }
            }
            let peer_cancelled_itself = if role == "sender" { cr.is_some() } else { cs.is_some() };
            let peer_reports_cancel = peer_side.inds.iter().any(|i| match &i.ind {
                Indication::Finished(f) => f.report.condition == Condition::CancelReceived,
                Indication::Abandon(f) => f.condition == Condition::CancelReceived,
                Indication::Report(r) => r.condition == Condition::CancelReceived,
                _ => false,
            });
            if !peer_reports_cancel && !peer_cancelled_itself {
                out.push(vv("C10", "peer_does_not_report_cancel", role.into(), format!("txn {:?}: cancel took effect at the {} at seq {} before either side had finished and the peer was reachable, but the peer never reports CancelReceived", t.key, role, c.seq)));
            }
        }
        // (c) the destination name never holds anything but the complete file
        if (cs.is_some() || cr.is_some()) && !suspended {
            if let Some(src) = a.rec.puts[pi].source.as_ref() {
                let want = digest(src);
                for (s, _, dg) in a.samples(pi) {
                    if let Some(x) = dg {
                        if x != want {
                            out.push(v("C10", "partial_file_exposed", format!("txn {:?}: at seq {} the destination name holds {:?}, the source is {:?}", t.key, s, x, want)));
                            break;
                        }
                    }
                }
                let fin = a.final_file(put.dst, &put.dst_name).map(|b| digest(b));
                // (a receive transaction re-spawned by stragglers after the cancelled one ended may
                // deliver the file after all: what late PDUs may start is C11's subject; the content
                // clause above still applies to it)
                if let Some(x) = fin.filter(|_| t.at_dst.incarnations <= 1) {
                    let first_cancel_ind = t.at_dst.inds.iter().find(|i| match &i.ind {
                        Indication::Finished(f) => f.report.condition == Condition::CancelReceived,
                        Indication::Abandon(f) => f.condition == Condition::CancelReceived,
                        _ => false,
                    });
                    let completed_before = t.at_dst.finished().iter().any(|(i, f)| is_success(f) && first_cancel_ind.map(|c| i.seq < c.seq).unwrap_or(true));
                    if !completed_before {
                        out.push(v("C10", "file_left_after_cancel", format!("txn {:?}: the destination holds {:?} at the end although the receiver never reported a complete delivery before the cancel", t.key, x)));
                    } else if x != want {
                        out.push(v("C10", "file_differs_after_cancel", format!("txn {:?}: final destination {:?}, source {:?}", t.key, x, want)));
                    }
                }
            }
        }
    }
    out
}

/// the script leaves the direction canceller -> peer (and back, for the acknowledgements) usable:
/// no blackout, and fewer losses than the smaller limit in total
fn peer_reachable(sc: &Scenario, _from: usize, _to: usize) -> bool {
    let lim = gen::min_limit(sc);
    let mut losses = 0;
    for e in &sc.script {
        match e {
            Entry::Blackout { .. } | Entry::Crash { .. } | Entry::FsFault { .. } => return false,
            Entry::Fault { act, .. } => {
                if matches!(act, Act::Drop | Act::Flip { .. } | Act::Trunc { .. }) {
                    losses += 1;
                }
                if let Act::Delay { us } = act {
                    if *us > gen::min_timeout_us(sc) / 4 {
                        return false;
                    }
                }
            }
            _ => {}
        }
    }
    losses < lim
}

fn build(ctx: &Ctx, tier: Tier, seed: u64) -> Vec<Job<'static>> {
    let (cfgs, n_rand) = match tier {
        Tier::Quick => (40, 60_000),
        Tier::Thorough => (160, 800_000),
    };
    let root = ctx.root(997);
    let mut rng = Rng::new(seed ^ 0xC105);
    let mut sweep: Vec<Scenario> = vec![];
    for ci in 0..cfgs {
        let unack = ci % 4 == 3;
        let k = Knobs { unack: Some(unack), closure: Some(ci % 2 == 0), limit_min: 2, limit_max: 3, seg_choices: vec![24, 64, 100, 1024], stale_dest: false, ..Knobs::default() };
        let mut sc = gen::pair_cfg(&mut rng, &k);
        sc.ser_us = 1000;
        let seg = sc.ents[0].seg as u64;
        let size = *rng.pick(&[6 * seg + 1, 3 * seg, seg, 1, 0]);
        sc.puts.push(crate::props::file_put(unack, size, gen::draw_content(&mut rng, seg), rng.next_u64()));
        let prof = gen::profile(&sc, &root, 0, 1);
        let pts = crate::sweep::points(&prof, 0, 1);
        let drop = |s: usize, d: usize, k: Kind, n: u32| Entry::Fault { src: s, dst: d, sel: Sel::Kind(k, n), act: Act::Drop };
        let mut variants: Vec<Vec<Entry>> = vec![vec![]];
        for j in 0..2u32 {
            variants.push(vec![drop(0, 1, Kind::Eof, j)]);
            variants.push(vec![drop(1, 0, Kind::AckEof, j)]);
            variants.push(vec![drop(1, 0, Kind::Fin, j)]);
            variants.push(vec![drop(0, 1, Kind::AckFin, j)]);
        }
        for ent in [0usize, 1] {
            for p in &pts {
                for var in &variants {
                    let mut x = sc.clone();
                    x.script = var.clone();
                    x.script.push(Entry::User { ent, op: UserOp::Cancel, put: 0, at: p.clone() });
                    sweep.push(x);
                }
                // peer blackout from the cancel on (either direction, both)
                for dirs in [vec![(0usize, 1usize)], vec![(1, 0)], vec![(0, 1), (1, 0)]] {
                    let mut x = sc.clone();
                    x.script.push(Entry::User { ent, op: UserOp::Cancel, put: 0, at: p.clone() });
                    for (s, d) in dirs {
                        x.script.push(Entry::Blackout { src: s, dst: d, from: p.clone(), until: Trigger::Never });
                    }
                    sweep.push(x);
                }
                // cancel of a suspended transaction (same entity): it has to end all the same
                for d in [0u64, 1000, 1_500_000] {
                    let mut x = sc.clone();
                    x.script.push(Entry::User { ent, op: UserOp::Suspend, put: 0, at: p.clone() });
                    x.script.push(Entry::User { ent, op: UserOp::Cancel, put: 0, at: Trigger::Plus(Box::new(p.clone()), d) });
                    sweep.push(x.clone());
                    // ... also when nothing reaches it any more (only its own timers can end it)
                    x.script.push(Entry::Blackout { src: 1 - ent, dst: ent, from: p.clone(), until: Trigger::Never });
                    sweep.push(x);
                }
                // a data PDU lost as well (the receiver has a reason of its own to keep the
                // transaction alive and to send NAKs), combined with the loss of the first
                // cancel-conditioned PDU: an ACK or NAK that answers the pre-cancel exchange must not
                // be taken for an answer to the cancel
                for (fs, fd, kind, k) in [(0usize, 1usize, Kind::Eof, 1u32), (0, 1, Kind::Eof, 0), (1, 0, Kind::Fin, 0)] {
                    let mut x = sc.clone();
                    x.script.push(Entry::Fault { src: 0, dst: 1, sel: Sel::Kind(Kind::Fd, 0), act: Act::Drop });
                    x.script.push(Entry::Fault { src: fs, dst: fd, sel: Sel::Kind(kind, k), act: Act::Drop });
                    x.script.push(Entry::User { ent, op: UserOp::Cancel, put: 0, at: p.clone() });
                    sweep.push(x);
                }
                // cancel at both sides
                let mut x = sc.clone();
                x.script.push(Entry::User { ent, op: UserOp::Cancel, put: 0, at: p.clone() });
                x.script.push(Entry::User { ent: 1 - ent, op: UserOp::Cancel, put: 0, at: Trigger::Plus(Box::new(p.clone()), *rng.pick(&[0u64, 1000, 3000])) });
                sweep.push(x);
            }
        }
    }
    let sw = Arc::new(sweep);
    let sw2 = sw.clone();
    let j0 = Job {
        label: "cancel-point sweep: Cancel at sender or receiver before/after every PDU x {no loss, 1st/2nd EOF, ACK(EOF), Finished, ACK(Finished) lost} + blackout of either/both directions from the cancel on + cancel at both sides".into(),
        n: sw.len(),
        gen: Box::new(move |i| sw2[i].clone()),
    };
    let j1 = Job {
        label: "seeded: wild link faults on larger files, cancel at a random side and point".into(),
        n: n_rand,
        gen: Box::new(move |i| {
            let mut rng = Rng::new(mix(seed ^ 0xC10A, i as u64));
            let k = Knobs { max_segments: 30, stale_dest: false, ..Knobs::default() };
            let mut sc = gen::pair_cfg(&mut rng, &k);
            if rng.chance(2, 3) {
                sc.ser_us = 1000;
            }
            gen::add_file_put(&mut sc, &mut rng, &k, 0, 1, 0);
            let prof = crate::checks::estimate_profile(&sc);
            if rng.chance(2, 3) {
                sc.script = gen::wild_script(&mut rng, &sc, &prof, 0, 1);
            }
            let ent = rng.usize_below(2);
            let at = if rng.chance(3, 4) { Trigger::AfterPdu { src: 0, dst: 1, n: rng.below(prof.fwd.len() as u64 + 2) as u32 } } else { Trigger::AfterPdu { src: 1, dst: 0, n: rng.below(4) as u32 } };
            sc.script.push(Entry::User { ent, op: UserOp::Cancel, put: 0, at });
            sc
        }),
    };
    vec![j0, j1]
}

fn probes(a: &Analysis, out: &mut Vec<&'static str>) {
    common_probes(a, out);
    for t in a.txns.values() {
        let Some(d) = t.dst_ent else { continue };
        if effective_cancel(a, t, &t.at_src, t.src_ent).is_some() {
            out.push("cancel_took_effect_at_sender");
            let first_eof = t.at_src.sent.iter().find(|s| s.kind == Kind::Eof).map(|s| s.seq);
            let c = effective_cancel(a, t, &t.at_src, t.src_ent).unwrap();
            if first_eof.map(|e| c.seq < e).unwrap_or(true) {
                out.push("cancel_during_first_pass_or_before");
            }
            if t.at_dst.sent.iter().any(|s| s.kind == Kind::Nak && s.seq < c.seq) {
                out.push("cancel_during_nak_exchange");
            }
        }
        if d < a.rec.sc.ents.len() && effective_cancel(a, t, &t.at_dst, d).is_some() {
            out.push("cancel_took_effect_at_receiver");
        }
        // how often the reporting clauses are really judged (a guard that is always false is a
        // blind spot: it was one for cancels at the receiver until the third round of seeded changes)
        let no_susp = !a.rec.sc.script.iter().any(|e| matches!(e, Entry::User { op: UserOp::Suspend, .. }) || matches!(e, Entry::ClockJump { .. } | Entry::Stall { .. }));
        if no_susp {
            if let Some(c) = effective_cancel(a, t, &t.at_src, t.src_ent) {
                if cancel_before_any_finish(&t.at_src, &t.at_dst, &c) {
                    out.push("reporting_clauses_judged_for_a_cancel_at_the_sender");
                }
            }
            if d < a.rec.sc.ents.len() {
                if let Some(c) = effective_cancel(a, t, &t.at_dst, d) {
                    if cancel_before_any_finish(&t.at_dst, &t.at_src, &c) {
                        out.push("reporting_clauses_judged_for_a_cancel_at_the_receiver");
                    }
                }
            }
        }
        if t.at_dst.finished().iter().any(|(_, f)| is_success(f)) && (effective_cancel(a, t, &t.at_src, t.src_ent).is_some() || effective_cancel(a, t, &t.at_dst, d).is_some()) {
            out.push("cancel_raced_with_completion");
        }
    }
    out.sort();
    out.dedup();
}

pub fn check() -> Check {
    Check {
        prop: "C10",
        level: "fault_enumeration",
        rule: "cancel-point sweep: per grid configuration (both modes, closure on/off, files of 0/1/1/3/6+ segments, link serialisation 1 ms per PDU) Cancel.request at the sender or the receiver before the first and after every PDU of the fault-free exchange x {no loss, first or second EOF / ACK(EOF) / Finished / ACK(Finished) lost}, x blackout of A>B, B>A or both from the cancel on, x cancel at both sides, x {first data PDU lost and first / second EOF or first Finished lost}; plus seeded wild scripts with one cancel; non-trivial = a user operation landed or a fault fired; distinct = distinct history fingerprint",
        assumptions: vec![
            "bound B(E) as in C03; the peer's bound is B(peer) + B(canceller)",
            "the peer clause is demanded for sender-initiated cancels (both modes) and receiver-initiated cancels in acknowledged mode, only if the cancel took effect before either side reported the transaction finished, the receiver had not completed, there is no blackout and fewer losses than the smaller limit",
            "no pre-existing file under the destination name; no suspend, stall or clock jump in these scenarios",
        ],
        oracle: Box::new(c10),
        cross: Box::new(safety_cross),
        probes: Box::new(probes),
        build,
        admissible: Box::new(domain_basic),
        real: REAL_SIM.to_vec(),
        stub: STUB_SIM.to_vec(),
    }
}
