//! C11: concurrent transactions are isolated; stray PDUs cannot disturb the daemon.
//!
//! S-multi: three real daemons (each with one transport entry listing both peers) and a scripted
//! source of stray traffic; 2..40 overlapping Puts in all six directions and both modes, bounded
//! loss on the links, replays of captured PDUs after their transaction ended, responses for
//! transactions that never existed, PDUs naming entities without transport, generated PDUs with
//! arbitrary identifiers; a canary Put at every entity after the stray phase.

use std::collections::HashSet;

use cfdp_core::pdu::{Condition, DeliveryCode, FileStatusCode};

use crate::{
    analysis::{is_success, Analysis, Violation},
    checks::{common_probes, domain_basic, Check, Tier, REAL_SIM, STUB_SIM},
    gen,
    oracle::{self, v, vv},
    pdus::Hdr,
    prng::{mix, Rng},
    runner::{Ctx, Job},
    scenario::*,
    world::EvKind,
};

const CANARY_AT: u64 = 40_000_000;

fn scenario(seed: u64, i: usize, big: bool) -> Scenario {
    let mut rng = Rng::new(mix(seed ^ 0xC11A, i as u64));
    let mut sc = Scenario::default();
    sc.family = "multi".into();
    sc.rt_seed = rng.next_u64();
    sc.idw = *rng.pick(&[2u8, 2, 4, 8]);
    sc.lat_us = *rng.pick(&[100u64, 1000, 5000]);
    let seg = *rng.pick(&[24u16, 64, 1024]);
    let limit = rng.range(2, 4) as u32;
    let mut proto = Ent::default();
    proto.seg = seg;
    proto.limit = limit;
    proto.t_ack = rng.range(2, 4) as i64;
    proto.t_nak = rng.range(2, 4) as i64;
    proto.t_inact = 5 + rng.range(0, 3) as i64;
    proto.crc = rng.chance(1, 3);
    proto.closure = rng.chance(1, 2);
    proto.nak_immediate = rng.chance(1, 2);
    sc.ents = vec![proto.clone(), proto.clone(), proto.clone(), Ent { real: false, ..proto.clone() }];
    // in a quarter of the runs the users' indication channels are tiny and one node (user included)
    // stalls for a while in the middle of the traffic: reports queue up, none may be lost
    if rng.chance(1, 4) {
        sc.ind_cap = *rng.pick(&[1usize, 2, 4]);
        sc.script.push(Entry::Stall { ent: rng.usize_below(3), at: Trigger::At(*rng.pick(&[0u64, 1000, 2000, 10_000, 300_000])), us: rng.range(200_000, 1_500_000) });
    }
    for (k, e) in sc.ents.iter_mut().enumerate() {
        e.seq0 = [0u64, 10, 200, 0][k];
    }
    // in a sixth of the runs the sequence counters start just below the end of their width (round 7):
    // the ids handed out around the wrap must stay distinct
    // (drawn from a stream of its own, so that the rest of the scenario is what it was before)
    let mut rng2 = Rng::new(mix(seed ^ 0xC11B, i as u64));
    if sc.idw <= 4 && rng2.chance(1, 6) {
        let top = if sc.idw == 2 { 0x1_0000u64 } else { 0x1_0000_0000u64 };
        for e in sc.ents.iter_mut().take(3) {
            e.seq0 = top - rng2.range(1, 4);
        }
    }
    let nput = if big { rng.range(8, 40) } else { rng.range(2, 10) } as usize;
    for k in 0..nput {
        let src = rng.usize_below(3);
        let dst = (src + 1 + rng.usize_below(2)) % 3;
        let size = *rng.pick(&[0u64, 1, seg as u64, 2 * seg as u64 + 3, 4 * seg as u64]);
        sc.puts.push(Put {
            src,
            dst,
            unack: rng.chance(1, 4),
            // a quarter of the Puts are fire-and-forget (the user drops the reply channel): they
            // consume a transaction id like any other
            src_name: if rng.chance(1, 4) { format!("ff_src{}_{}.bin", src, k) } else { format!("src{}_{}.bin", src, k) },
            dst_name: format!("dst{}_{}_{}.bin", src, dst, k),
            file: Some(FileSpec { size, class: gen::draw_content(&mut rng, seg as u64), cseed: rng.next_u64() }),
            reqs: vec![],
            msgs: vec![],
            at: Trigger::At(*rng.pick(&[0u64, 0, 1000, 2000, 10_000, 300_000])),
        });
    }
    // canaries: a fresh Put at every entity after the stray phase
    for e in 0..3usize {
        sc.puts.push(Put {
            src: e,
            dst: (e + 1) % 3,
            unack: false,
            src_name: format!("canary{}.bin", e),
            dst_name: format!("canary_from{}.bin", e),
            file: Some(FileSpec { size: 2 * seg as u64 + 1, class: Content::Rand, cseed: rng.next_u64() }),
            reqs: vec![],
            msgs: vec![],
            at: Trigger::At(CANARY_AT),
        });
    }
    // bounded loss: fewer than `limit` losses in the whole run (every transaction stays in its envelope)
    let losses = rng.range(0, (limit - 1) as u64);
    for _ in 0..losses {
        let a = rng.usize_below(3);
        let b = (a + 1 + rng.usize_below(2)) % 3;
        sc.script.push(Entry::Fault { src: a, dst: b, sel: Sel::Nth(rng.below(6 * nput as u64 + 4) as u32), act: Act::Drop });
    }
    for _ in 0..rng.below(4) {
        let a = rng.usize_below(3);
        let b = (a + 1 + rng.usize_below(2)) % 3;
        let act = if rng.chance(1, 2) { Act::Dup { n: 1, gap_us: sc.lat_us } } else { Act::Delay { us: sc.lat_us * 2 } };
        sc.script.push(Entry::Fault { src: a, dst: b, sel: Sel::Nth(rng.below(6 * nput as u64 + 4) as u32), act });
    }
    // stray traffic
    let nstray = rng.range(0, 12);
    for _ in 0..nstray {
        let dst = rng.usize_below(3);
        let at = Trigger::At(*rng.pick(&[5_000u64, 500_000, 12_000_000, 20_000_000, 30_000_000]) + rng.below(1000) * 1000);
        let what = match rng.below(5) {
            0 | 1 => {
                // (a) replay of a captured PDU, most likely after its transaction ended
                let s = (dst + 1 + rng.usize_below(2)) % 3;
                What::Copy { src: s, dst, n: rng.below(30) as u32 }
            }
            2 => {
                // (b) a response for a transaction that never existed at the addressed sender
                let h = Hdr { idw: sc.idw, src: dst as u64 + 1, seq: 5000 + rng.below(50), dst: ((dst + 1) % 3) as u64 + 1, unack: rng.chance(1, 4), crc: proto.crc, large: false };
                What::Raw(match rng.below(4) {
                    0 => h.ack_eof(Condition::NoError),
                    1 => h.nak((0, 100), &[(0, 50)]),
                    2 => h.finished(Condition::NoError, DeliveryCode::Complete, FileStatusCode::Retained),
                    _ => h.keepalive(7),
                })
            }
            3 => {
                // (c) entities without transport at the addressed daemon
                let h = Hdr { idw: sc.idw, src: 77, seq: rng.below(9), dst: 78, unack: false, crc: proto.crc, large: false };
                What::Raw(if rng.chance(1, 2) { h.metadata(10, "x", "stray_x.bin", false, false, vec![]) } else { h.ack_eof(Condition::NoError) })
            }
            _ => {
                // (d) a well-formed start of a transaction nobody asked for, from a known peer
                let s = (dst + 1 + rng.usize_below(2)) % 3;
                let h = Hdr { idw: sc.idw, src: s as u64 + 1, seq: 6000 + rng.below(50), dst: dst as u64 + 1, unack: rng.chance(1, 2), crc: proto.crc, large: false };
                What::Raw(match rng.below(3) {
                    0 => h.metadata(20, "ghost", "stray_ghost.bin", false, false, vec![]),
                    1 => h.filedata(0, &[9; 20]),
                    _ => h.eof(Condition::NoError, 0, 20),
                })
            }
        };
        sc.script.push(Entry::Inject { src: 3, dst, what, at, delay_us: 0 });
    }
    sc
}

pub fn c11(a: &Analysis) -> Vec<Violation> {
    let mut out = vec![];
    let sc = &a.rec.sc;
    // (a) ids handed out for Put requests are distinct
    let mut seen: HashSet<(u64, u64)> = HashSet::new();
    for e in &a.rec.events {
        if let EvKind::PutId { put, id } = &e.k {
            if !seen.insert(*id) {
                out.push(v("C11", "duplicate_transaction_id", format!("put #{} was given the id {:?}, which another Put of this run already has", put, id)));
            }
        }
    }
    // (b) every legitimate transaction delivers its own file and reports its own outcome
    for (pi, p) in sc.puts.iter().enumerate() {
        if !a.rec.puts[pi].issued {
            out.push(v("C11", "put_not_issued", format!("put #{} was never issued", pi)));
            continue;
        }
        let canary = p.src_name.starts_with("canary");
        if p.unack {
            // unacknowledged: nothing is retransmitted, a lost PDU may legitimately fail it; safety only
            continue;
        }
        for mut x in oracle::c02_put(a, pi, "C11") {
            x.clause = if canary { "canary_put_failed" } else { "legitimate_transaction_failed" };
            x.value = String::new();
            out.push(x);
        }
    }
    for mut x in oracle::c01(a) {
        x.prop = "C11";
        x.clause = "wrong_file_delivered";
        out.push(x);
    }
    // cross-wiring: a destination file of one Put never holds another Put's content
    for (pi, p) in sc.puts.iter().enumerate() {
        if let Some(fin) = a.final_file(p.dst, &p.dst_name) {
            let own = a.rec.puts[pi].source.as_deref();
            if Some(fin) != own {
                if let Some((qi, _)) = sc.puts.iter().enumerate().find(|(qi, _)| *qi != pi && a.rec.puts[*qi].source.as_deref() == Some(fin) && !fin.is_empty()) {
                    out.push(v("C11", "cross_wired_file", format!("destination '{}' of put #{} holds the content of put #{}", p.dst_name, pi, qi)));
                }
            }
        }
    }
    // routing: a PDU pulled for a live transaction is handed to it. Observable for file data (every
    // processed file-data PDU yields a FileSegmentRecv indication) and for NAKs (the sender answers
    // every request before its next EOF: C07's clause, re-labelled)
    for t in a.txns.values() {
        let Some(d) = t.dst_ent else { continue };
        if d >= sc.ents.len() || !sc.ents[d].real || t.put.is_none() {
            continue;
        }
        let end = t.at_dst.inds.iter().find(|i| matches!(&i.ind, cfdp_core::daemon::Indication::Report(r) if r.state == cfdp_core::transaction::TransactionState::Terminated));
        let end_vt = end.map(|i| i.vt).unwrap_or(u64::MAX);
        let pulled = t.at_dst.recvd.iter().filter(|r| r.vt < end_vt && r.pdu.as_ref().map(|p| crate::world::kind_of(p) == Kind::Fd).unwrap_or(false)).count();
        let seen = t.at_dst.inds.iter().filter(|i| i.vt <= end_vt && matches!(&i.ind, cfdp_core::daemon::Indication::FileSegmentRecv(_))).count();
        if seen < pulled && t.at_dst.incarnations <= 1 {
            out.push(v("C11", "pdu_for_live_transaction_not_processed", format!("txn {:?}: entity {} pulled {} file-data PDUs for its live receive transaction, which processed {}", t.key, d, pulled, seen)));
        }
    }
    for x in crate::props::c07::c07(a) {
        if x.clause == "nak_not_answered_before_eof" {
            let mut y = x;
            y.prop = "C11";
            y.clause = "pdu_for_live_transaction_not_processed";
            out.push(y);
        }
    }
    // (c) the daemons survive and stay responsive
    for (i, alive) in a.rec.daemon_alive.iter().enumerate() {
        if !alive {
            out.push(v("C11", "daemon_stopped", format!("daemon of entity {} is no longer running", i)));
        }
    }
    for pr in &a.rec.probes {
        if pr.timed_out {
            out.push(v("C11", "daemon_unresponsive", format!("entity {} did not answer (or refuse) a Report request for {:?}", pr.ent, pr.key)));
        }
    }
    for p in &a.rec.panics {
        out.push(vv("C11", "task_panicked", String::new(), format!("a task panicked: {}", p)));
    }
    // (d) transactions that exist only because of stray / replayed PDUs end by their own limits
    for x in oracle::c03(a) {
        if x.clause == "never_ended" || x.clause == "ended_late" || x.clause == "spin" {
            let mut y = x;
            y.prop = "C11";
            y.clause = "transaction_did_not_end";
            out.push(y);
        }
    }
    // stray transactions never create a file under a legitimate destination name
    let legit: HashSet<String> = sc.puts.iter().map(|p| p.dst_name.clone()).collect();
    for (ei, fs) in a.rec.fs_final.iter().enumerate() {
        for (path, c) in fs {
            if c.is_some() && !legit.contains(path) && !sc.puts.iter().any(|p| p.src == ei && &p.src_name == path) && !path.starts_with("stray_") {
                out.push(v("C11", "unexpected_file", format!("entity {} holds an unexpected file '{}'", ei, path)));
            }
        }
    }
    let _ = is_success;
    out
}

fn build(_ctx: &Ctx, tier: Tier, seed: u64) -> Vec<Job<'static>> {
    let (n_small, n_big, n_flood) = match tier {
        Tier::Quick => (12_000, 800, 32),
        Tier::Thorough => (300_000, 40_000, 3_000),
    };
    vec![
        Job {
            label: "response bursts: 3 daemons, a few Puts of 60..250 tiny segments with 10-40% of the data lost, NAK capacity 2 per PDU: dozens of NAK PDUs reach one live send transaction at one instant".into(),
            n: n_big,
            gen: Box::new(move |i| {
                let mut rng = Rng::new(mix(seed ^ 0xC11B, i as u64));
                let mut sc = scenario(seed ^ 0xB5, i, false);
                sc.script.retain(|e| !matches!(e, Entry::Fault { .. }));
                for e in sc.ents.iter_mut() {
                    e.seg = 24;
                    e.limit = 4;
                    e.t_nak = 2;
                    e.t_ack = 3;
                    e.t_inact = 9;
                    e.nak_immediate = false;
                    e.nak_delay_ms = 0;
                }
                let nput = sc.puts.len() - 3;
                for (k, p) in sc.puts.iter_mut().enumerate() {
                    if k < nput.min(3) {
                        p.unack = false;
                        let nseg = rng.range(250, 400);
                        p.file = Some(FileSpec { size: nseg * 24 - rng.below(5), class: Content::Rand, cseed: rng.next_u64() });
                    } else if k < nput {
                        p.at = Trigger::At(50_000_000); // keep the run small: the rest come late
                    }
                }
                // lose a share of the first-pass data of every link (by index: data PDUs mostly)
                let share = rng.range(20, 45);
                let big_links: Vec<(usize, usize)> = sc.puts.iter().take(nput.min(3)).map(|p| (p.src, p.dst)).collect();
                for a in 0..3usize {
                    for b in 0..3usize {
                        // only links that carry one of the long transfers: their hundreds of data
                        // PDUs push every later transaction's data beyond the dropped indices
                        if a == b || !big_links.contains(&(a, b)) {
                            continue;
                        }
                        for n in 1..250u32 {
                            if rng.below(100) < share {
                                sc.script.push(Entry::Fault { src: a, dst: b, sel: Sel::Kind(Kind::Fd, n), act: Act::Drop });
                            }
                        }
                    }
                }
                sc
            }),
        },
        Job {
            label: "immediate-NAK floods: one Put of 800..1300 tiny segments with every other data PDU (80-100% of the odd ones) lost, immediate NAK mode, zero serialisation time: hundreds of NAK PDUs reach the one live send transaction at one instant while it retransmits".into(),
            n: n_flood,
            gen: Box::new(move |i| {
                let mut rng = Rng::new(mix(seed ^ 0xC11F, i as u64));
                let mut sc = scenario(seed ^ 0xF1, i, false);
                sc.script.retain(|e| !matches!(e, Entry::Fault { .. }));
                sc.ser_us = 0;
                sc.ser_ns_byte = 0;
                for e in sc.ents.iter_mut() {
                    e.seg = 24;
                    e.limit = 4;
                    e.t_nak = 2;
                    e.t_ack = 3;
                    e.t_inact = 9;
                    e.nak_immediate = rng.chance(1, 2);
                    e.nak_delay_ms = 0;
                }
                let nput = sc.puts.len() - 3;
                let nseg = rng.range(800, 1300);
                for (k, p) in sc.puts.iter_mut().enumerate() {
                    if k == 0 {
                        p.unack = false;
                        p.at = Trigger::At(0);
                        p.file = Some(FileSpec { size: nseg * 24 - rng.below(5), class: Content::Rand, cseed: rng.next_u64() });
                    } else if k < nput {
                        p.at = Trigger::At(50_000_000);
                    }
                }
                let (a, b) = (sc.puts[0].src, sc.puts[0].dst);
                let share = rng.range(80, 100);
                let mut n = 1u32;
                while (n as u64) < nseg {
                    if rng.below(100) < share {
                        sc.script.push(Entry::Fault { src: a, dst: b, sel: Sel::Kind(Kind::Fd, n), act: Act::Drop });
                    }
                    n += 2;
                }
                sc
            }),
        },
        Job { label: "3 daemons, 2..10 overlapping Puts, bounded loss, 0..12 stray / replayed PDUs, canary Put at every entity afterwards".into(), n: n_small, gen: Box::new(move |i| scenario(seed, i, false)) },
        Job { label: "3 daemons, 8..40 overlapping Puts (same ingredients)".into(), n: n_big, gen: Box::new(move |i| scenario(seed ^ 0xB16, i, true)) },
    ]
}

fn probes(a: &Analysis, out: &mut Vec<&'static str>) {
    common_probes(a, out);
    let mut strays = 0;
    for t in a.txns.values() {
        if t.put.is_none() && (t.at_dst.existed || t.at_src.existed) {
            strays += 1;
        }
    }
    if strays > 0 {
        out.push("stray_transaction_spawned");
    }
    let overlapping = {
        let mut live = 0i32;
        let mut maxl = 0;
        for e in &a.rec.events {
            if let EvKind::Ind { ind: cfdp_core::daemon::Indication::Report(r), .. } = &e.k {
                if r.state == cfdp_core::transaction::TransactionState::Terminated {
                    live -= 1;
                } else {
                    live += 1;
                    maxl = maxl.max(live);
                }
            }
        }
        maxl
    };
    if overlapping >= 4 {
        out.push("four_or_more_transactions_live_at_once");
    }
    if overlapping >= 16 {
        out.push("sixteen_or_more_transactions_live_at_once");
    }
    {
        let mut per: std::collections::HashMap<(usize, u64), u32> = Default::default();
        for s in a.sends.iter().filter(|s| s.kind == Kind::Nak && !s.injected) {
            *per.entry((s.src, s.vt)).or_insert(0) += 1;
        }
        if per.values().any(|n| *n > 10) {
            out.push("more_than_10_nak_pdus_at_one_instant");
        }
        if per.values().any(|n| *n > 30) {
            out.push("more_than_30_nak_pdus_at_one_instant");
        }
    }
    for s in &a.sends {
        if s.injected && matches!(s.fate, crate::world::Fate::Pass { .. }) {
            if s.pdu.as_ref().map(|p| p.header.direction == cfdp_core::pdu::Direction::ToSender).unwrap_or(false) {
                out.push("stray_response_delivered");
            }
        }
        if s.dst == usize::MAX {
            out.push("pdu_for_unknown_entity");
        }
    }
    out.sort();
    out.dedup();
}

pub fn check() -> Check {
    Check {
        prop: "C11",
        level: "exploration",
        rule: "one run = three real daemons + a scripted stray source; 2..10 (second job 8..40) Puts with distinct files in all six directions, both modes, issued within 300 ms of each other; fewer than `limit` losses in the whole run plus benign dup/delay; 0..12 stray datagrams (replays of captured PDUs, responses for transactions that never existed, PDUs naming entities without transport, unsolicited transaction starts) before, during and long after the transfers; one canary Put per entity at t = 40 s; non-trivial = a fault fired or a PDU was injected; distinct = distinct history fingerprint (the measure of interleaving: the sequence of (entity pair, PDU kind, offset, fate) over all links)",
        assumptions: vec![
            "strays never carry the id of a transaction that is live at the addressed entity in the matching direction (replays of captured PDUs may: they are then genuine duplicates)",
            "completion is demanded of acknowledged Puts only (the run as a whole is inside the C02 envelope); unacknowledged Puts are covered by the safety clauses",
            "crash / restart of an entity is not simulated (no durable transaction state exists to recover)",
        ],
        oracle: Box::new(c11),
        cross: Box::new(|a| crate::props::c07::c07(a)),
        probes: Box::new(probes),
        build,
        admissible: Box::new(|sc| domain_basic(sc) && sc.family == "multi"),
        real: REAL_SIM.to_vec(),
        stub: STUB_SIM.to_vec(),
    }
}

pub fn selftest(seed: u64, i: usize) -> Scenario {
    scenario(seed, i, i % 50 == 3)
}
