//! One module per property added after the first round: scenario jobs, registry entry.

pub mod c04;
pub mod c06;
pub mod c07;
pub mod c08;
pub mod c09;
pub mod c10;
pub mod c11;
pub mod c12;
pub mod c13;
pub mod c14;
pub mod c15;
pub mod c16;
pub mod c17;
pub mod c19;
pub mod c20;

use crate::scenario::*;

/// a put of a file with fixed names s.bin -> d.bin
pub fn file_put(unack: bool, size: u64, class: Content, cseed: u64) -> Put {
    Put {
        src: 0,
        dst: 1,
        unack,
        src_name: "s.bin".into(),
        dst_name: "d.bin".into(),
        file: Some(FileSpec { size, class, cseed }),
        reqs: vec![],
        msgs: vec![],
        at: Trigger::At(0),
    }
}

/// a request-only put (no file)
pub fn req_put(unack: bool, reqs: Vec<Req>) -> Put {
    Put {
        src: 0,
        dst: 1,
        unack,
        src_name: String::new(),
        dst_name: String::new(),
        file: None,
        reqs,
        msgs: vec![],
        at: Trigger::At(0),
    }
}

pub fn req(action: u8, first: &str, second: &str) -> Req {
    Req { action, first: first.into(), second: second.into() }
}

pub fn pre_file(ent: usize, path: &str, size: u64, cseed: u64) -> Pre {
    Pre { ent, path: path.into(), file: Some(FileSpec { size, class: Content::Text, cseed }) }
}
pub fn pre_dir(ent: usize, path: &str) -> Pre {
    Pre { ent, path: path.into(), file: None }
}

/// per-worker extras with equal keys are summed
pub fn sum_extras(out: &mut crate::custom::COut) {
    use crate::json::J;
    let mut sums: Vec<(String, i64)> = vec![];
    let mut rest = vec![];
    for (k, v) in out.extra.drain(..) {
        if let J::Int(x) = v {
            if let Some(e) = sums.iter_mut().find(|e| e.0 == k) {
                e.1 += x;
            } else {
                sums.push((k, x));
            }
        } else {
            rest.push((k, v));
        }
    }
    for (k, v) in sums {
        out.extra.push((k, J::Int(v)));
    }
    out.extra.extend(rest);
}
