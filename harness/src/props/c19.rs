//! C19: suspend really suspends; resume picks up and completes.
//!
//! Suspend-point sweep: Suspend at the sender or at the receiver after every PDU of the exchange
//! (link serialisation 1 ms per PDU, so a first pass is in progress when the suspension lands),
//! Resume after 0 .. many timer periods, combined with single losses; plus seeded scripts.

use std::sync::Arc;

use cfdp_core::daemon::Indication;

use crate::{
    analysis::{Analysis, Side, Txn, Violation},
    checks::{common_probes, domain_basic, in_c02_envelope, safety_cross, Check, Tier, REAL_SIM, STUB_SIM},
    gen::{self, Knobs},
    oracle::{self, v, vv},
    prng::{mix, Rng},
    runner::{Ctx, Job},
    scenario::*,
};

/// PDUs of the restricted kinds that may still be logged after the Suspended indication: the one
/// sitting in the single-slot channel to the transport when the suspension took effect, plus one
/// for the transport's own hand-over
pub const ALLOWANCE: usize = 2;

fn restricted(k: Kind) -> bool {
    matches!(k, Kind::Md | Kind::Fd | Kind::Eof | Kind::Nak | Kind::Fin)
}

/// The suspension windows of one side that were opened by the USER's suspend request (the
/// statement speaks of those; a suspension caused by a fault handler is C17's subject):
/// (suspended seq, resumed seq or MAX, suspended vt, resumed vt). `user_suspends` are the link
/// sequence numbers at which accepted user Suspend requests for this entity and transaction were
/// issued; the k-th of them opens a window at the first Suspended indication that follows it.
fn windows(side: &Side, user_suspends: &[(u64, u64)]) -> Vec<(u64, u64, u64, u64)> {
    let mut out = vec![];
    let mut open: Option<(u64, u64)> = None;
    let mut pending: Vec<(u64, u64)> = user_suspends.to_vec();
    for i in &side.inds {
        match &i.ind {
            Indication::Suspended(_) => {
                // the daemon hands a user request to the transaction at once: the indication of a
                // suspension requested by the user follows the request at the same virtual instant
                let hit = pending.iter().position(|(useq, uvt)| *useq < i.seq && *uvt == i.vt);
                if let Some(h) = hit {
                    pending.drain(..=h);
                    if open.is_none() {
                        open = Some((i.seq, i.vt));
                    }
                }
            }
            Indication::Resumed(_) => {
                if let Some((s, svt)) = open.take() {
                    out.push((s, i.seq, svt, i.vt));
                }
            }
            Indication::Report(r) if r.state == cfdp_core::transaction::TransactionState::Terminated => {
                // the transaction ended while suspended: the window ends here, un-resumed
                // (marked by a resumed instant of u64::MAX)
                if let Some((s, svt)) = open.take() {
                    out.push((s, i.seq, svt, u64::MAX));
                }
                // only the first incarnation is judged: a transaction re-spawned under the same id
                // by late PDUs (and what the daemon's routing table does with it) is C11's subject
                return out;
            }
            _ => {}
        }
    }
    if let Some((s, svt)) = open {
        out.push((s, u64::MAX, svt, u64::MAX));
    }
    out
}

fn script_without_user_ops(sc: &Scenario) -> Scenario {
    let mut x = sc.clone();
    x.script.retain(|e| !matches!(e, Entry::User { op: UserOp::Suspend | UserOp::Resume, .. }));
    x
}

fn max_suspension_us(sc: &Scenario) -> u64 {
    // the longest scripted distance between a suspend and its resume (0 if none; MAX if never resumed)
    let mut m = 0u64;
    for e in &sc.script {
        if let Entry::User { op: UserOp::Suspend, ent, at, .. } = e {
            let r = sc.script.iter().find_map(|x| match x {
                Entry::User { op: UserOp::Resume, ent: e2, at: Trigger::Plus(b, us), .. } if e2 == ent && **b == *at => Some(*us),
                _ => None,
            });
            m = m.max(r.unwrap_or(u64::MAX));
        }
    }
    m
}

pub fn c19(a: &Analysis) -> Vec<Violation> {
    let mut out = vec![];
    let sc = &a.rec.sc;
    for t in a.txns.values() {
        let Some(pi) = t.put else { continue };
        for (side, ent, role) in [(&t.at_src, Some(t.src_ent), "sender"), (&t.at_dst, t.dst_ent, "receiver")] {
            let Some(ent) = ent else { continue };
            if !sc.ents[ent].real {
                continue;
            }
            for (s0, s1, vt0, vt1) in windows(side, &user_suspends(a, ent, t)) {
                // (a) silence
                let leaked: Vec<_> = side.sent.iter().filter(|p| p.seq > s0 && p.seq < s1 && restricted(p.kind)).collect();
                // the allowance covers PDUs that were on their way to the link when the suspension
                // took effect: they are logged within two serialisation times of it. Anything of a
                // restricted kind logged later was created by a suspended transaction.
                let ser = (sc.ser_us + sc.ser_ns_byte * (sc.ents[ent].seg as u64 + 128) / 1000).max(1000);
                let grace = 2 * ser + 2_000;
                // (a PDU logged at the very instant of the resume was released by it: the Resumed
                // indication is logged a few scheduler hops later)
                let late = leaked.iter().filter(|p| p.vt > vt0 + grace && p.vt < vt1).count();
                if leaked.len() > ALLOWANCE || late > 0 {
                    out.push(vv(
                        "C19",
                        "transmits_while_suspended",
                        role.to_string(),
                        format!(
                            "txn {:?}: the {} (entity {}) was suspended from seq {} (t={}us) to {} and emitted {} PDUs of kinds {:?} meanwhile",
                            t.key,
                            role,
                            ent,
                            s0,
                            vt0,
                            if s1 == u64::MAX { "the end of the run".to_string() } else { format!("seq {} (t={}us)", s1, vt1) },
                            leaked.len(),
                            {
                                let mut k: Vec<&str> = leaked.iter().map(|p| p.kind.name()).collect();
                                k.dedup();
                                k
                            }
                        ),
                    ));
                }
                // (b) no timer faults while suspended
                for i in side.inds.iter().filter(|i| i.seq > s0 && i.seq < s1) {
                    let c = match &i.ind {
                        Indication::Fault(f) => Some(f.condition),
                        Indication::Abandon(f) => Some(f.condition),
                        _ => None,
                    };
                    if let Some(c) = c {
                        use cfdp_core::pdu::Condition::*;
                        if matches!(c, PositiveLimitReached | NakLimitReached | InactivityDetected | KeepAliveLimitReached | CheckLimitReached) {
                            out.push(vv("C19", "timer_fault_while_suspended", format!("{}/{:?}", role, c), format!("txn {:?}: the suspended {} declared {:?} at seq {} (suspended since seq {})", t.key, role, c, i.seq, s0)));
                        }
                    }
                }
            }
        }
        // (d) timers count only un-suspended time: a limit fault declared after a suspension needs
        // limit x timeout of un-suspended time since the earliest instant its timer can have been
        // armed (the first EOF / Finished / NAK for the ACK and NAK limits, the start of the
        // transaction for the inactivity limit - deliberately the weakest admissible start)
        for (side, ent, sender) in [(&t.at_src, Some(t.src_ent), true), (&t.at_dst, t.dst_ent, false)] {
            let Some(ent) = ent else { continue };
            if !sc.ents[ent].real {
                continue;
            }
            let ws = windows(side, &user_suspends(a, ent, t));
            if ws.is_empty() {
                continue;
            }
            let e = &sc.ents[ent];
            let role = if sender { "sender" } else { "receiver" };
            let end = side.inds.iter().find(|i| matches!(&i.ind, Indication::Report(r) if r.state == cfdp_core::transaction::TransactionState::Terminated)).map(|i| i.seq).unwrap_or(u64::MAX);
            for fi in side.inds.iter().filter(|i| i.seq < end) {
                let Indication::Fault(f) = &fi.ind else { continue };
                use cfdp_core::pdu::Condition::*;
                // a PDU is created before it is logged (up to two PDUs wait between the transaction
                // and the link: the single-slot channel and the transport's hand-over); the timer is
                // armed at creation, which is not earlier than the log instant of the PDU two places
                // before it (or the start of the transaction)
                let t_start = side.inds.first().map(|i| i.vt).unwrap_or(0);
                let first_sent = |k: Kind| side.sent.iter().position(|s| s.kind == k).map(|ix| if ix >= 2 { side.sent[ix - 2].vt } else { t_start.min(side.sent[0].vt) });
                let (t_s, start) = match f.condition {
                    PositiveLimitReached => (e.t_ack, first_sent(if sender { Kind::Eof } else { Kind::Fin })),
                    NakLimitReached => (e.t_nak, first_sent(Kind::Nak)),
                    InactivityDetected => (e.t_inact, side.inds.first().map(|i| i.vt)),
                    _ => continue,
                };
                let Some(start) = start else { continue };
                let tf = fi.vt;
                if start >= tf {
                    continue;
                }
                let susp: u64 = ws.iter().map(|w| w.3.min(tf).saturating_sub(w.2.max(start))).sum();
                if susp == 0 {
                    continue; // no suspension in between: C17's subject
                }
                let need = e.limit as u64 * t_s.max(0) as u64 * 1_000_000;
                let had = (tf - start).saturating_sub(susp);
                if had + 5_000 < need {
                    out.push(vv(
                        "C19",
                        "limit_fault_counts_suspended_time",
                        format!("{}/{:?}", role, f.condition),
                        format!(
                            "txn {:?}: the {} declared {:?} at {}us; since its timer can first have been armed ({}us) only {}us of un-suspended time passed ({}us were spent suspended), limit {} x timeout {}s",
                            t.key, role, f.condition, tf, start, had, susp, e.limit, t_s
                        ),
                    ));
                }
            }
        }
        // (c) resume completes like an unsuspended transfer: short suspensions inside the C02 envelope
        let put = &sc.puts[pi];
        // unacknowledged mode with closure: the only recovery the mode has is the retransmission of
        // the Finished PDU; with nothing lost but Finished PDUs (fewer than the receiver's limit) and
        // short suspensions the transfer completes as the unsuspended one does
        if put.unack && sc.ents[put.src].closure && sc.ents[put.src].real && sc.ents[put.dst].real {
            let base = script_without_user_ops(sc);
            let only_fin_losses = base.script.iter().all(|e| matches!(e, Entry::Fault { src, dst, sel: Sel::Kind(Kind::Fin, _), act: Act::Drop } if *src == put.dst && *dst == put.src));
            let nloss = base.script.len() as u32;
            let tmin = gen::min_timeout_us(sc);
            let any_susp = sc.script.iter().any(|e| matches!(e, Entry::User { op: UserOp::Suspend, .. }));
            let d = t.dst_ent.unwrap_or(usize::MAX);
            let longest = windows(&t.at_src, &user_suspends(a, t.src_ent, t)).iter().chain(windows(&t.at_dst, &user_suspends(a, d, t)).iter()).map(|w| w.3.saturating_sub(w.2)).max().unwrap_or(0);
            // the receiver repeats its Finished every ACK timeout of its own; the sender gives up
            // after its own ladder: the repetitions must fit into it
            let (es, ed) = (&sc.ents[put.src], &sc.ents[put.dst]);
            let fits = (nloss as i64) * ed.t_ack.max(1) + 1 < es.limit as i64 * es.t_ack.max(1).min(es.t_inact.max(1));
            if fits && any_susp && only_fin_losses && nloss >= 1 && nloss < sc.ents[put.dst].limit && nloss < sc.ents[put.src].limit && longest <= tmin / 4 && max_suspension_us(sc) <= tmin / 4 && all_resumed(a, t) {
                for mut x in oracle::c02_put(a, pi, "C19") {
                    x.clause = match x.clause {
                        "receiver_no_finished" | "receiver_first_finished_not_success" => "after_resume_receiver_not_successful",
                        "sender_no_finished" | "sender_first_finished_not_success" => "after_resume_sender_not_successful",
                        "dest_differs" => "after_resume_file_differs",
                        _ => "after_resume_not_ended",
                    };
                    out.push(x);
                }
            }
        }
        if !put.unack && sc.ents[put.src].real && sc.ents[put.dst].real {
            let base = script_without_user_ops(sc);
            let tmin = gen::min_timeout_us(sc);
            let any_susp = sc.script.iter().any(|e| matches!(e, Entry::User { op: UserOp::Suspend, .. }));
            // the suspensions as they actually happened (not as scripted: two requests at the same
            // trigger take effect in script order)
            let d = t.dst_ent.unwrap_or(usize::MAX);
            let longest = windows(&t.at_src, &user_suspends(a, t.src_ent, t)).iter().chain(windows(&t.at_dst, &user_suspends(a, d, t)).iter()).map(|w| w.3.saturating_sub(w.2)).max().unwrap_or(0);
            if any_susp && in_c02_envelope(&base) && longest <= tmin / 4 && max_suspension_us(sc) <= tmin / 4 && all_resumed(a, t) {
                for mut x in oracle::c02_put(a, pi, "C19") {
                    x.clause = match x.clause {
                        "receiver_no_finished" | "receiver_first_finished_not_success" => "after_resume_receiver_not_successful",
                        "sender_no_finished" | "sender_first_finished_not_success" => "after_resume_sender_not_successful",
                        "dest_differs" => "after_resume_file_differs",
                        _ => "after_resume_not_ended",
                    };
                    out.push(x);
                }
            }
        }
    }
    out
}

/// every suspension that took effect was followed by a Resumed indication
fn all_resumed(a: &Analysis, t: &Txn) -> bool {
    let d = t.dst_ent.unwrap_or(usize::MAX);
    windows(&t.at_src, &user_suspends(a, t.src_ent, t)).iter().chain(windows(&t.at_dst, &user_suspends(a, d, t)).iter()).all(|w| w.3 != u64::MAX)
}

fn user_suspends(a: &Analysis, ent: usize, t: &Txn) -> Vec<(u64, u64)> {
    a.rec
        .events
        .iter()
        .filter_map(|e| match &e.k {
            crate::world::EvKind::User { ent: ue, op: UserOp::Suspend, id, accepted: true, .. } if *ue == ent && *id == t.key => Some((e.seq, e.vt)),
            _ => None,
        })
        .collect()
}

fn build(ctx: &Ctx, tier: Tier, seed: u64) -> Vec<Job<'static>> {
    let (cfgs, n_rand) = match tier {
        Tier::Quick => (24, 50_000),
        Tier::Thorough => (120, 600_000),
    };
    let root = ctx.root(997);
    let mut rng = Rng::new(seed ^ 0xC195);
    let mut sweep: Vec<Scenario> = vec![];
    for ci in 0..cfgs {
        let unack = ci % 4 == 3;
        let k = Knobs { unack: Some(unack), limit_min: 2, limit_max: 4, seg_choices: vec![24, 32, 64, 100], stale_dest: false, ..Knobs::default() };
        let mut sc = gen::pair_cfg(&mut rng, &k);
        sc.ser_us = 1000;
        let seg = sc.ents[0].seg as u64;
        let size = *rng.pick(&[24 * seg, 25 * seg + 1, 3 * seg, seg, 0]);
        sc.puts.push(crate::props::file_put(unack, size, gen::draw_content(&mut rng, seg), rng.next_u64()));
        // timers long enough that a 25-PDU pass at 1 ms per PDU is far below T/4
        for e in sc.ents.iter_mut() {
            e.t_ack = e.t_ack.max(1);
            e.t_nak = e.t_nak.max(1);
            e.t_inact = e.t_inact.max(e.t_ack).max(e.t_nak);
        }
        let prof = gen::profile(&sc, &root, 0, 1);
        let t = gen::min_timeout_us(&sc);
        let lim = gen::min_limit(&sc) as u64;
        let deltas = [0u64, 1000, t / 8, t / 2, t, 3 * t, 10 * lim * t];
        let pts = crate::sweep::points(&prof, 0, 1);
        for ent in [0usize, 1] {
            for p in &pts {
                for d in deltas {
                    let mut x = sc.clone();
                    x.script.push(Entry::User { ent, op: UserOp::Suspend, put: 0, at: p.clone() });
                    x.script.push(Entry::User { ent, op: UserOp::Resume, put: 0, at: Trigger::Plus(Box::new(p.clone()), d) });
                    sweep.push(x.clone());
                    // a Prompt(NAK) of the sending user reaches the suspended receiver (round 7): the stored
                    // prompt must not be answered before the resume, whatever arrives meanwhile (EOF)
                    if ent == 1 && !unack && (d == t / 2 || d == 3 * t) {
                        let mut y = x.clone();
                        y.script.push(Entry::User { ent: 0, op: UserOp::PromptNak, put: 0, at: Trigger::Plus(Box::new(p.clone()), 3000) });
                        sweep.push(y);
                    }
                    // unacknowledged mode with closure: the Finished PDU lost once
                    if unack && x.ents[0].closure && d <= t / 8 && lim >= 2 {
                        let mut y = x.clone();
                        y.script.push(Entry::Fault { src: 1, dst: 0, sel: Sel::Kind(Kind::Fin, 0), act: Act::Drop });
                        sweep.push(y);
                    }
                    // combined with a single loss at a seeded place
                    if d <= t / 8 && lim >= 2 && rng.chance(1, 3) {
                        let (s, dd, n) = if rng.chance(2, 3) { (0, 1, rng.below(prof.fwd.len() as u64) as u32) } else { (1, 0, rng.below(prof.rev.len().max(1) as u64) as u32) };
                        x.script.push(Entry::Fault { src: s, dst: dd, sel: Sel::Nth(n), act: Act::Drop });
                        sweep.push(x);
                    }
                }
            }
        }
    }
    let sw = Arc::new(sweep);
    let sw2 = sw.clone();
    let j0 = Job {
        label: "suspend-point sweep: Suspend at sender or receiver after every PDU of the exchange, Resume after {0, 1 ms, T/8, T/2, T, 3T, 10*limit*T}, a third of the short ones with a single loss; receiver suspensions of T/2 and 3T also with a Prompt(NAK) of the sending user 3 ms into the suspension".into(),
        n: sw.len(),
        gen: Box::new(move |i| sw2[i].clone()),
    };
    let j1 = Job {
        label: "seeded: wild link faults, suspend/resume at both sides, suspension never resumed, Suspend fault handlers, prompts of the sending user around a quarter of the suspensions".into(),
        n: n_rand,
        gen: Box::new(move |i| {
            let mut rng = Rng::new(mix(seed ^ 0xC19A, i as u64));
            let k = Knobs { max_segments: 30, stale_dest: false, ..Knobs::default() };
            let mut sc = gen::pair_cfg(&mut rng, &k);
            if rng.chance(2, 3) {
                sc.ser_us = 1000;
            }
            gen::add_file_put(&mut sc, &mut rng, &k, 0, 1, 0);
            let prof = crate::checks::estimate_profile(&sc);
            if rng.chance(1, 2) {
                sc.script = gen::wild_script(&mut rng, &sc, &prof, 0, 1);
            }
            if rng.chance(1, 4) {
                // a limit fault whose handler suspends
                let e = rng.usize_below(2);
                sc.ents[e].handlers.push((*rng.pick(&[1u8, 7, 8]), 2));
                sc.script.push(Entry::Blackout { src: 1 - e, dst: e, from: Trigger::AfterPdu { src: 0, dst: 1, n: rng.below(prof.fwd.len() as u64 + 1) as u32 }, until: Trigger::Never });
            }
            let n = rng.range(1, 3);
            for _ in 0..n {
                let ent = rng.usize_below(2);
                let at = Trigger::AfterPdu { src: 0, dst: 1, n: rng.below(prof.fwd.len() as u64 + 2) as u32 };
                sc.script.push(Entry::User { ent, op: UserOp::Suspend, put: 0, at: at.clone() });
                if rng.chance(1, 4) {
                    // prompts of the sending user landing inside (or around) the suspension
                    sc.script.push(Entry::User { ent: 0, op: *rng.pick(&[UserOp::PromptNak, UserOp::PromptNak, UserOp::PromptKa]), put: 0, at: Trigger::Plus(Box::new(at.clone()), *rng.pick(&[0u64, 2000, 50_000, 800_000])) });
                }
                if rng.chance(4, 5) {
                    sc.script.push(Entry::User { ent, op: UserOp::Resume, put: 0, at: Trigger::Plus(Box::new(at), *rng.pick(&[0u64, 1000, 100_000, 1_500_000, 20_000_000])) });
                }
            }
            sc
        }),
    };
    vec![j0, j1]
}

fn probes(a: &Analysis, out: &mut Vec<&'static str>) {
    common_probes(a, out);
    for t in a.txns.values() {
        for (side, role) in [(&t.at_src, 0), (&t.at_dst, 1)] {
            let ent = if role == 0 { t.src_ent } else { t.dst_ent.unwrap_or(usize::MAX) };
            for (s0, s1, vt0, vt1) in windows(side, &user_suspends(a, ent, t)) {
                out.push(if role == 0 { "sender_suspension_took_effect" } else { "receiver_suspension_took_effect" });
                if s1 == u64::MAX || vt1 == u64::MAX {
                    out.push("suspension_never_resumed");
                } else if vt1 - vt0 >= 3_000_000 {
                    out.push("suspension_longer_than_3s");
                }
                let first_eof = t.at_src.sent.iter().find(|p| p.kind == Kind::Eof).map(|p| p.seq).unwrap_or(u64::MAX);
                if s0 < first_eof && t.at_src.sent.iter().any(|p| p.kind == Kind::Fd && p.seq < s0) {
                    out.push("suspended_during_first_pass");
                }
            }
        }
    }
    out.sort();
    out.dedup();
}

pub fn check() -> Check {
    Check {
        prop: "C19",
        level: "fault_enumeration",
        rule: "suspend-point sweep: per grid configuration (both modes, files of 0/1/3/24/25+ segments, link serialisation 1 ms per PDU) Suspend at the sender or at the receiver before the first and after every PDU of the fault-free exchange x Resume after {0, 1 ms, T/8, T/2, T, 3T, 10*limit*T}, a third of the short suspensions combined with a single loss; plus seeded scripts (wild faults, both sides, never resumed, Suspend fault handlers); non-trivial = a fault fired or a user operation landed; distinct = distinct history fingerprint",
        assumptions: vec![
            "silence allowance: at most 2 PDUs of the restricted kinds may be logged after the Suspended indication (single-slot channel to the transport + hand-over); ACK, KeepAlive and Prompt PDUs are not restricted",
            "completion after resume is demanded only for acknowledged transfers whose script without the suspend/resume entries is inside the C02 envelope and whose suspensions last at most a quarter of the shortest timer (a longer suspension may legitimately make the un-suspended peer give up)",
        ],
        oracle: Box::new(c19),
        cross: Box::new(safety_cross),
        probes: Box::new(probes),
        build,
        admissible: Box::new(domain_basic),
        real: REAL_SIM.to_vec(),
        stub: STUB_SIM.to_vec(),
    }
}
