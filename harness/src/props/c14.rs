//! C14: the file checksum is the CCSDS modular checksum, however the data is read.
//!
//! IO seam: `FileChecksum::checksum` is implemented for every `Read + Seek`. The simulated reader
//! serves each `read` call with a scripted length (short reads) and may fail a call with
//! `ErrorKind::Interrupted`; `seek` is exact. Reference model: `content::modular_checksum`.

use std::io::{Error, ErrorKind, Read, Seek, SeekFrom};

use cfdp_core::filestore::{ChecksumType, FileChecksum};

use crate::{
    checks::Tier,
    content,
    custom::{par, COut, CViol, Custom},
    json::J,
    prng::{mix, Rng},
    scenario::{Content, FileSpec},
};

#[derive(Clone, Debug, PartialEq, Eq, Hash)]
pub enum Script {
    /// the reader hands over whatever the caller asks for
    Full,
    Const(usize),
    Alt(usize, usize),
    /// seeded lengths in 1..=max
    Rand(u64, usize),
    /// full reads except call number `call`, which returns `len` bytes
    OneShort(u64, usize),
}
impl Script {
    fn text(&self) -> String {
        match self {
            Script::Full => "full".into(),
            Script::Const(k) => format!("const:{}", k),
            Script::Alt(a, b) => format!("alt:{}:{}", a, b),
            Script::Rand(s, m) => format!("rand:{}:{}", s, m),
            Script::OneShort(c, l) => format!("short:{}:{}", c, l),
        }
    }
    fn parse(s: &str) -> Option<Script> {
        let p: Vec<&str> = s.split(':').collect();
        Some(match p[0] {
            "full" => Script::Full,
            "const" => Script::Const(p.get(1)?.parse().ok()?),
            "alt" => Script::Alt(p.get(1)?.parse().ok()?, p.get(2)?.parse().ok()?),
            "rand" => Script::Rand(p.get(1)?.parse().ok()?, p.get(2)?.parse().ok()?),
            "short" => Script::OneShort(p.get(1)?.parse().ok()?, p.get(2)?.parse().ok()?),
            _ => return None,
        })
    }
}

pub struct SimReader {
    data: Vec<u8>,
    pos: u64,
    script: Script,
    calls: u64,
    rng: Rng,
    eintr: Vec<u64>,
    pub short_reads: u64,
    pub eintr_fired: u64,
}
impl SimReader {
    pub fn new(data: Vec<u8>, script: Script, eintr: Vec<u64>) -> Self {
        let seed = if let Script::Rand(s, _) = &script { *s } else { 0 };
        SimReader { data, pos: 0, script, calls: 0, rng: Rng::new(seed), eintr, short_reads: 0, eintr_fired: 0 }
    }
}
impl Read for SimReader {
    fn read(&mut self, buf: &mut [u8]) -> std::io::Result<usize> {
        let call = self.calls;
        self.calls += 1;
        if self.eintr.contains(&call) {
            self.eintr_fired += 1;
            return Err(Error::new(ErrorKind::Interrupted, "injected EINTR"));
        }
        let avail = (self.data.len() as u64).saturating_sub(self.pos) as usize;
        let want = buf.len().min(avail);
        let cap = match &self.script {
            Script::Full => want,
            Script::Const(k) => *k,
            Script::Alt(a, b) => {
                if call % 2 == 0 {
                    *a
                } else {
                    *b
                }
            }
            Script::Rand(_, m) => 1 + self.rng.usize_below((*m).max(1)),
            Script::OneShort(c, l) => {
                if call == *c {
                    *l
                } else {
                    want
                }
            }
        };
        let n = want.min(cap.max(1));
        if n < want {
            self.short_reads += 1;
        }
        let p = self.pos as usize;
        buf[..n].copy_from_slice(&self.data[p..p + n]);
        self.pos += n as u64;
        Ok(n)
    }
}
impl Seek for SimReader {
    fn seek(&mut self, s: SeekFrom) -> std::io::Result<u64> {
        let np: i128 = match s {
            SeekFrom::Start(x) => x as i128,
            SeekFrom::Current(d) => self.pos as i128 + d as i128,
            SeekFrom::End(d) => self.data.len() as i128 + d as i128,
        };
        if np < 0 {
            return Err(Error::new(ErrorKind::InvalidInput, "seek before start"));
        }
        self.pos = np as u64;
        Ok(self.pos)
    }
}

#[derive(Clone, Debug)]
pub struct Case {
    pub file: FileSpec,
    pub script: Script,
    pub eintr: Vec<u64>,
    pub null: bool,
    /// read a real file on tmpfs instead of the simulated reader
    pub real_file: bool,
}
impl Case {
    pub fn text(&self) -> String {
        format!(
            "# cfdp-verif io v1\ncase len={} class={} cseed={} script={} eintr={} null={} real_file={}\n",
            self.file.size,
            self.file.class.text(),
            self.file.cseed,
            self.script.text(),
            if self.eintr.is_empty() { "-".to_string() } else { self.eintr.iter().map(|x| x.to_string()).collect::<Vec<_>>().join(",") },
            self.null as u8,
            self.real_file as u8
        )
    }
    pub fn parse(text: &str) -> Result<Case, String> {
        let line = text.lines().find(|l| l.starts_with("case ")).ok_or("no case line")?;
        let kv: Vec<(&str, &str)> = line.split_whitespace().skip(1).filter_map(|t| t.split_once('=')).collect();
        let get = |k: &str| kv.iter().find(|(a, _)| *a == k).map(|(_, v)| *v).ok_or(format!("missing {k}"));
        Ok(Case {
            file: FileSpec {
                size: get("len")?.parse().map_err(|_| "len")?,
                class: Content::parse(get("class")?).ok_or("class")?,
                cseed: get("cseed")?.parse().map_err(|_| "cseed")?,
            },
            script: Script::parse(get("script")?).ok_or("script")?,
            eintr: match get("eintr")? {
                "-" => vec![],
                s => s.split(',').map(|x| x.parse::<u64>().map_err(|_| "eintr".to_string())).collect::<Result<_, _>>()?,
            },
            null: get("null")? == "1",
            real_file: get("real_file")? == "1",
        })
    }
}

pub struct Outcome {
    pub viol: Option<CViol>,
    pub short_reads: u64,
    pub eintr_fired: u64,
    pub errored: bool,
}

pub fn run_case(c: &Case, scratch: &str) -> Outcome {
    let data = content::gen(&c.file);
    let want = if c.null { 0 } else { content::modular_checksum(&data) };
    let ty = if c.null { ChecksumType::Null } else { ChecksumType::Modular };
    let (got, short, eintr) = if c.real_file {
        let path = format!("{}/c14-{}.bin", scratch, std::process::id());
        std::fs::create_dir_all(scratch).ok();
        std::fs::write(&path, &data).expect("tmpfs");
        let mut f = std::fs::File::open(&path).expect("tmpfs");
        let r = f.checksum(ty);
        let _ = std::fs::remove_file(&path);
        (r, 0, 0)
    } else {
        let mut r = SimReader::new(data.clone(), c.script.clone(), c.eintr.clone());
        let res = r.checksum(ty);
        (res, r.short_reads, r.eintr_fired)
    };
    let mk = |clause: &str, value: String, detail: String| CViol {
        clause: clause.to_string(),
        signature: format!("C14/{}/{}/{}", clause, match &c.script {
            Script::Full => "full",
            Script::Const(_) => "const",
            Script::Alt(..) => "alt",
            Script::Rand(..) => "rand",
            Script::OneShort(..) => "oneshort",
        }, value),
        detail,
        replay: c.text(),
    };
    let viol = match &got {
        Ok(v) if *v == want => None,
        Ok(v) => Some(mk(
            "wrong_value",
            if c.file.size % 4 == 0 { "len%4==0".into() } else { "len%4!=0".into() },
            format!("checksum over {} bytes ({}) read with script {} is {:08x}, CCSDS model says {:08x}", c.file.size, c.file.class.text(), c.script.text(), v, want),
        )),
        Err(e) => {
            if eintr > 0 {
                None // an injected EINTR may surface as an error, never as a different value
            } else {
                Some(mk("unexpected_error", String::new(), format!("checksum failed without an injected fault: {}", e)))
            }
        }
    };
    Outcome { viol, short_reads: short, eintr_fired: eintr, errored: got.is_err() }
}

fn gen_case(seed: u64, i: usize) -> Case {
    let mut rng = Rng::new(mix(seed ^ 0xC14A, i as u64));
    let size = match rng.below(10) {
        0 => rng.range(0, 64),
        1 => 8192 * rng.range(1, 4) + rng.range(0, 10) - 5,
        2 => *rng.pick(&[8191u64, 8192, 8193, 16383, 16384, 16385, 4095, 4096, 4097]),
        3 => rng.range(0, 65536),
        _ => rng.range(0, 2048),
    };
    let class = match rng.below(6) {
        0 => Content::Ones,
        1 => Content::Counter,
        2 => Content::Zero,
        3 => Content::Neutral,
        _ => Content::Rand,
    };
    let script = match rng.below(9) {
        0 => Script::Full,
        1 | 2 => Script::Const(rng.range(1, 9) as usize),
        3 => Script::Const(*rng.pick(&[4095usize, 4097, 8191, 8192, 8193, 1000, 7])),
        4 => Script::Alt(*rng.pick(&[1usize, 2, 3, 5]), *rng.pick(&[8192usize, 4096, 8191, 6])),
        5 | 6 => Script::Rand(rng.next_u64(), *rng.pick(&[3usize, 9, 64, 5000, 9000])),
        _ => Script::OneShort(rng.below(4), rng.range(1, 9) as usize),
    };
    let eintr = if rng.chance(1, 6) { vec![rng.below(6)] } else { vec![] };
    Case { file: FileSpec { size, class, cseed: rng.next_u64() }, script, eintr, null: rng.chance(1, 12), real_file: false }
}

fn systematic() -> Vec<Case> {
    // lengths 0..=80 and around the 8 KiB buffer boundary x constant chunk lengths 1..=9 and the
    // buffer-straddling ones, structured content; plus real files
    let mut v = vec![];
    let mut lens: Vec<u64> = (0..=80).collect();
    for k in 1..=3u64 {
        for d in -5i64..=5 {
            lens.push((8192 * k as i64 + d) as u64);
        }
    }
    let scripts: Vec<Script> = (1..=9).map(Script::Const).chain([Script::Const(8191), Script::Const(8193), Script::Const(4097), Script::Alt(1, 8192), Script::Full]).collect();
    for (li, len) in lens.iter().enumerate() {
        for (si, s) in scripts.iter().enumerate() {
            let class = [Content::Counter, Content::Ones, Content::Rand][(li + si) % 3].clone();
            v.push(Case { file: FileSpec { size: *len, class, cseed: (li * 31 + si) as u64 }, script: s.clone(), eintr: vec![], null: false, real_file: false });
        }
        v.push(Case { file: FileSpec { size: *len, class: Content::Counter, cseed: li as u64 }, script: Script::Full, eintr: vec![], null: false, real_file: true });
        v.push(Case { file: FileSpec { size: *len, class: Content::Ones, cseed: li as u64 }, script: Script::Full, eintr: vec![], null: true, real_file: false });
    }
    v
}

fn run(tier: Tier, seed: u64, workers: usize) -> COut {
    let n_rand = match tier {
        Tier::Quick => 4_000_000,
        Tier::Thorough => 60_000_000,
    };
    let sys = systematic();
    let nsys = sys.len();
    let total = nsys + n_rand;
    let scratch = format!("/dev/shm/cfdp-verif/{}", std::process::id());
    let mut out = par(total, workers, |lo, hi| {
        let mut o = COut::default();
        let (mut short, mut eintr, mut errs, mut single) = (0u64, 0u64, 0u64, 0u64);
        for i in lo..hi {
            let c = if i < nsys { sys[i].clone() } else { gen_case(seed, i - nsys) };
            let r = run_case(&c, &scratch);
            o.evaluations += 1;
            short += r.short_reads;
            eintr += r.eintr_fired;
            errs += r.errored as u64;
            if r.short_reads > 0 || r.eintr_fired > 0 || c.real_file {
                o.note_distinct(&(c.file.size, c.script.clone(), c.eintr.is_empty()));
            }
            if i == lo && o.samples.len() < 2 {
                o.samples.push(c.text());
            }
            if let Some(v) = r.viol {
                o.viol(v);
            }
            // sender and receiver disagree on any change of a single byte (through full reads)
            if i >= nsys && i % 8 == 0 && c.file.size > 0 && !c.null {
                single += 1;
                let data = content::gen(&c.file);
                let mut d2 = data.clone();
                let mut rng = Rng::new(mix(seed ^ 0x51, i as u64));
                let p = rng.usize_below(d2.len());
                d2[p] ^= 1 + rng.below(255) as u8;
                let a = SimReader::new(data, Script::Full, vec![]).checksum(ChecksumType::Modular);
                let b = SimReader::new(d2, Script::Full, vec![]).checksum(ChecksumType::Modular);
                if let (Ok(a), Ok(b)) = (a, b) {
                    if a == b {
                        o.viol(CViol { clause: "single_byte_change_undetected".into(), signature: "C14/single_byte_change_undetected".into(), detail: format!("changing byte {} of a {} byte file leaves the checksum at {:08x}", p, c.file.size, a), replay: c.text() });
                    }
                }
            }
        }
        o.extra.push(("short_reads_served".into(), J::i(short)));
        o.extra.push(("eintr_injected".into(), J::i(eintr)));
        o.extra.push(("calls_returning_error".into(), J::i(errs)));
        o.extra.push(("single_byte_change_pairs".into(), J::i(single)));
        o
    });
    // sum the per-worker extras
    let mut sums: std::collections::BTreeMap<String, i64> = Default::default();
    for (k, v) in out.extra.drain(..) {
        if let J::Int(x) = v {
            *sums.entry(k).or_insert(0) += x;
        }
    }
    for (k, v) in sums {
        out.extra.push((k, J::Int(v)));
    }
    out.extra.push(("systematic_cases".into(), J::i(nsys as u64)));
    out.exhaustive_note = "the systematic part (lengths 0..80 and 8192k+-5 x constant chunk lengths 1..9, 4097, 8191, 8193, alternating 1/8192, full; real tmpfs files) is enumerated completely; the seeded part samples".into();
    out
}

fn replay(text: &str) -> Result<Vec<CViol>, String> {
    let c = Case::parse(text)?;
    Ok(run_case(&c, &format!("/dev/shm/cfdp-verif/{}", std::process::id())).viol.into_iter().collect())
}

pub fn check() -> Custom {
    Custom {
        prop: "C14",
        level: "exploration",
        rule: "one case = (length, content class, read script, EINTR calls, checksum type); the real FileChecksum::checksum runs over a simulated Read+Seek that serves each read call with the scripted length; non-trivial = at least one short read or EINTR was actually served (or a real tmpfs file was read); distinct = distinct (length, script, eintr?) among those",
        assumptions: vec![
            "seek is exact; a read never returns more than requested; lengths <= 64 KiB + 1",
            "an injected Interrupted may surface as an error, never as a different value",
        ],
        real: vec!["cfdp_core::filestore::FileChecksum::checksum (Modular and Null)", "std::io::BufReader inside it", "std::fs::File on tmpfs for the real-file cases"],
        stub: vec!["the underlying reader -> SimReader (scripted short reads, EINTR)"],
        run,
        replay,
    }
}
