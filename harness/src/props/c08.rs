//! C08: receiver NAKs are well-formed and ask for exactly what is missing.
//!
//! S-rx: a scripted sender chooses exactly what arrives and in which order (every subset of lost
//! segments and metadata for small files, arrival orders incl. EOF first / data after EOF /
//! duplicated EOF / metadata last, prompts), against the real receiving daemon; S-pair: two real
//! daemons under loss so that NAK rounds race with retransmissions.

use std::sync::Arc;

use cfdp_core::daemon::Indication;
use cfdp_core::pdu::{Condition, NakOrKeepAlive, NegativeAcknowledgmentPDU, Operations};

use crate::{
    analysis::{fd_range, op_of, Analysis, IntervalSet, RecvRef, Txn, Violation},
    checks::{common_probes, domain_basic, safety_cross, Check, Tier, REAL_SIM, STUB_SIM},
    content,
    gen::{self, Knobs},
    oracle::{v, vv},
    pdus::Hdr,
    prng::{mix, Rng},
    runner::{Ctx, Job},
    scenario::*,
    world::kind_of,
};

#[derive(Clone, Debug, Default)]
struct Held {
    md: bool,
    set: IntervalSet,
    eof: Option<u64>,
    prompt_nak: bool,
    max_end: u64,
}

fn held_of<'a>(it: impl Iterator<Item = &'a RecvRef>) -> Held {
    let mut h = Held::default();
    for r in it {
        if let Some(p) = &r.pdu {
            match kind_of(p) {
                Kind::Md => h.md = true,
                Kind::Fd => {
                    if let Some((x, y, _)) = fd_range(p) {
                        h.set.insert(x, y);
                        h.max_end = h.max_end.max(y);
                    }
                }
                Kind::Eof => {
                    if let Some(Operations::EoF(e)) = op_of(p) {
                        if e.condition == Condition::NoError {
                            h.eof = Some(e.file_size);
                        }
                    }
                }
                Kind::Prompt => {
                    if let Some(Operations::Prompt(pr)) = op_of(p) {
                        if pr.nak_or_keep_alive == NakOrKeepAlive::Nak {
                            h.prompt_nak = true;
                        }
                    }
                }
                _ => {}
            }
        }
    }
    h
}

/// admissible prefixes of what the receiver had processed when it created a PDU logged at
/// (seq, vt): everything pulled before `not_before` for certain, then every FIFO prefix of the rest
fn candidates(recvd: &[RecvRef], seq: u64, vt: u64, not_before: u64) -> Vec<Held> {
    let lo = not_before.min(vt);
    let certain: Vec<&RecvRef> = recvd.iter().filter(|r| r.vt < lo).collect();
    let maybe: Vec<&RecvRef> = recvd.iter().filter(|r| r.vt >= lo && r.seq < seq).collect();
    (0..=maybe.len()).map(|k| held_of(certain.iter().copied().chain(maybe[..k].iter().copied()))).collect()
}

pub fn c08(a: &Analysis) -> Vec<Violation> {
    let mut out = vec![];
    for t in a.txns.values() {
        let Some(d) = t.dst_ent else { continue };
        if !a.rec.sc.ents[d].real {
            continue;
        }
        // acknowledged transactions only
        let unack = t.at_dst.recvd.iter().filter_map(|r| r.pdu.as_ref()).any(|p| p.header.transmission_mode == cfdp_core::pdu::TransmissionMode::Unacknowledged);
        if unack {
            continue;
        }
        c08_txn(a, t, d, &mut out);
    }
    out
}

fn c08_txn(a: &Analysis, t: &Txn, d: usize, out: &mut Vec<Violation>) {
    let sc = &a.rec.sc;
    let e = &sc.ents[d];
    // only the first incarnation of the receive transaction
    let end = t
        .at_dst
        .inds
        .iter()
        .find(|i| matches!(&i.ind, Indication::Report(r) if r.state == cfdp_core::transaction::TransactionState::Terminated))
        .map(|i| i.seq)
        .unwrap_or(u64::MAX);
    let recvd: Vec<RecvRef> = t.at_dst.recvd.iter().filter(|r| r.seq < end).cloned().collect();
    let ser = sc.ser_us + sc.ser_ns_byte * (e.seg as u64 + 64) / 1000;
    let ser_eff = if ser == 0 { 0 } else { ser.div_ceil(1000) * 1000 };
    let naks: Vec<_> = t.at_dst.sent.iter().filter(|s| s.kind == Kind::Nak && s.seq < end).collect();
    // A request list is computed when a round is triggered and then waits for the single outbound
    // slot: behind ACKs (which go first) and behind the earlier NAK PDUs of the same list, one
    // serialisation time each. The statement does not ask the receiver to re-validate what is
    // already queued when a retransmission arrives meanwhile. A queued PDU only waits while the
    // slot is busy, so the list of a NAK was computed no earlier than the start of the busy period
    // that ends with it (PDUs of this entity at most one serialisation time + 1 ms apart).
    // "Only what is missing" is judged against what the receiver held at that start.
    let own: Vec<(u64, u64)> = a.sends.iter().filter(|x| x.src == d && !x.injected).map(|x| (x.seq, x.vt)).collect();
    for s in &naks {
        let Some(p) = &s.pdu else { continue };
        let Some(Operations::Nak(n)) = op_of(p) else { continue };
        let prev = a.sends.iter().filter(|x| x.src == d && !x.injected && x.seq < s.seq).last().map(|x| x.vt).unwrap_or(0);
        let (mut bseq, mut bvt) = (s.seq, s.vt);
        let mut bprev = 0u64;
        for (q, qvt) in own.iter().rev().filter(|(q, _)| *q < s.seq) {
            if *qvt + ser_eff + 1000 >= bvt {
                bseq = *q;
                bvt = *qvt;
            } else {
                bprev = *qvt;
                break;
            }
        }
        let cands_burst = candidates(&recvd, bseq, bvt, bprev);
        let cands = candidates(&recvd, s.seq, s.vt, prev);
        let first = &cands_burst[0];
        let last = cands.last().unwrap();
        // (b) the PDU fits the configured maximum size
        // (the configured size is the maximum length of a file segment: the largest PDU the entity
        // emits anyway is a file data PDU with a data field of segment size + offset field; a NAK
        // must not be larger than that)
        let fss = if p.header.large_file_flag == cfdp_core::pdu::FileSizeFlag::Large { 8u64 } else { 4 };
        if p.header.pdu_data_field_length as u64 > e.seg as u64 + fss {
            out.push(v("C08", "nak_pdu_exceeds_maximum_pdu_size", format!("txn {:?}: NAK at seq {} has a data field of {} octets, a full file data PDU has {}", t.key, s.seq, p.header.pdu_data_field_length, e.seg as u64 + fss)));
        }
        let cap = NegativeAcknowledgmentPDU::max_nak_num(p.header.large_file_flag, e.seg as u32) as usize;
        if n.segment_requests.len() > cap {
            out.push(v("C08", "nak_pdu_too_many_requests", format!("txn {:?}: NAK at seq {} carries {} requests, capacity {}", t.key, s.seq, n.segment_requests.len(), cap)));
        }
        // scope
        if n.start_of_scope > n.end_of_scope {
            out.push(v("C08", "nak_scope_inverted", format!("txn {:?}: NAK at seq {} has scope [{}, {}]", t.key, s.seq, n.start_of_scope, n.end_of_scope)));
        }
        let upper = last.eof.unwrap_or(last.max_end);
        if n.end_of_scope > upper {
            out.push(vv("C08", "nak_scope_beyond_file", if last.eof.is_some() { "eof_known".into() } else { "eof_unknown".into() }, format!("txn {:?}: NAK at seq {} has scope end {}, the file / extent ends at {}", t.key, s.seq, n.end_of_scope, upper)));
        }
        for r in &n.segment_requests {
            let (x, y) = (r.start_offset, r.end_offset);
            if x == 0 && y == 0 {
                // the metadata marker: only while metadata is missing
                if first.md {
                    out.push(v("C08", "metadata_requested_but_present", format!("txn {:?}: NAK at seq {} requests the metadata (0,0) although it was delivered before", t.key, s.seq)));
                }
                continue;
            }
            // (a) non-empty, inside the scope and the file, only missing bytes
            if x >= y {
                out.push(v("C08", "nak_empty_or_inverted_range", format!("txn {:?}: NAK at seq {} requests [{}, {})", t.key, s.seq, x, y)));
                continue;
            }
            if x < n.start_of_scope || y > n.end_of_scope {
                out.push(v("C08", "nak_request_outside_scope", format!("txn {:?}: NAK at seq {} requests [{}, {}) outside its scope [{}, {}]", t.key, s.seq, x, y, n.start_of_scope, n.end_of_scope)));
            }
            if y > upper {
                out.push(v("C08", "nak_request_beyond_file", format!("txn {:?}: NAK at seq {} requests [{}, {}), the file / extent ends at {}", t.key, s.seq, x, y, upper)));
            }
            // every requested byte was missing in the smallest admissible prefix (prefixes are nested)
            let overlap = {
                let mut tmp = first.set.clone();
                let before = tmp.total();
                tmp.insert(x, y);
                (y - x) - (tmp.total() - before)
            };
            if overlap > 0 {
                out.push(v("C08", "nak_requests_held_bytes", format!("txn {:?}: NAK at seq {} requests [{}, {}) of which {} bytes were held for certain: {:?}", t.key, s.seq, x, y, overlap, first.set.0)));
            }
        }
        // (d) deferred procedure: no unsolicited NAK precedes EOF
        if !e.nak_immediate && last.eof.is_none() && !last.prompt_nak {
            out.push(v("C08", "deferred_nak_before_eof", format!("txn {:?}: deferred procedure, NAK at seq {} although neither EOF nor a Prompt(NAK) had been delivered", t.key, s.seq)));
        }
    }

    // state changes that end the obligation to NAK
    let stop_seq = t
        .at_dst
        .inds
        .iter()
        .find(|i| matches!(&i.ind, Indication::Finished(_) | Indication::Fault(_) | Indication::Abandon(_) | Indication::Suspended(_)))
        .map(|i| i.seq)
        .unwrap_or(u64::MAX)
        .min(end);
    let stop_vt = a.rec.events.iter().find(|ev| ev.seq >= stop_seq).map(|ev| ev.vt).unwrap_or(a.rec.end_vt);
    let user_touched = a.rec.events.iter().any(|ev| matches!(&ev.k, crate::world::EvKind::User { ent, id, accepted: true, op, .. } if *ent == d && *id == t.key && !matches!(op, UserOp::Report)));

    // (c) coverage after EOF: from the delivery of EOF (no error) to the next delivery of data or
    // metadata, the union of all requests equals exactly what is missing
    if !user_touched {
        let eofs: Vec<&RecvRef> = recvd.iter().filter(|r| matches!(r.pdu.as_ref().and_then(|p| op_of(p)), Some(Operations::EoF(x)) if x.condition == Condition::NoError)).collect();
        if let Some(eof) = eofs.first() {
            let size = match eof.pdu.as_ref().and_then(|p| op_of(p)) {
                Some(Operations::EoF(x)) => x.file_size,
                _ => 0,
            };
            // windows: [start, stop) where start = EOF delivery or a data/metadata delivery after it
            let mut marks: Vec<(u64, u64)> = vec![(eof.seq, eof.vt)];
            for r in recvd.iter().filter(|r| r.seq > eof.seq) {
                if let Some(p) = &r.pdu {
                    if matches!(kind_of(p), Kind::Md | Kind::Fd) {
                        marks.push((r.seq, r.vt));
                    }
                }
            }
            for (wi, (wseq, wvt)) in marks.iter().enumerate() {
                let (nseq, nvt) = marks.get(wi + 1).copied().unwrap_or((u64::MAX, u64::MAX));
                if *wseq >= stop_seq {
                    break;
                }
                let h = held_of(recvd.iter().filter(|r| r.seq <= *wseq));
                if h.set.max_end() > size {
                    continue; // file size error territory
                }
                let mut missing = h.set.gaps(0, size);
                let need_md = !h.md;
                if missing.is_empty() && !need_md {
                    continue;
                }
                // NAK PDUs created in the window: logged after the window opened (strictly later
                // than any PDU already in the pipeline) and before the next delivery
                let in_win: Vec<_> = naks.iter().filter(|s| s.seq > *wseq && s.seq < nseq && s.seq < stop_seq).collect();
                let mut union = IntervalSet::default();
                let mut asked_md = false;
                for s in &in_win {
                    if let Some(Operations::Nak(n)) = s.pdu.as_ref().and_then(|p| op_of(p)) {
                        for r in &n.segment_requests {
                            if r.start_offset == 0 && r.end_offset == 0 {
                                asked_md = true;
                            } else {
                                union.insert(r.start_offset, r.end_offset);
                            }
                        }
                    }
                }
                // the window must be long enough for a whole round: NAK delay + one PDU per `cap`
                // requests at the link's serialisation time + timer granularity
                let cap = (NegativeAcknowledgmentPDU::max_nak_num(cfdp_core::pdu::FileSizeFlag::Small, e.seg as u32) as u64).max(1);
                let pdus = (missing.len() as u64 + 1).div_ceil(cap) + 2;
                // the round that follows EOF comes at once (or after the NAK delay); after a
                // retransmission has arrived the next round is due when the NAK timer expires
                let period = if wi == 0 { 0 } else { e.t_nak.max(0) as u64 * 1_000_000 };
                let need_us = period + e.nak_delay_ms * 1000 + pdus * (ser_eff + 1000) + 3000;
                let wend = nvt.min(stop_vt).min(a.rec.end_vt);
                if wend < wvt + need_us {
                    continue;
                }
                missing.retain(|(x, y)| !union.covers(*x, *y));
                if !missing.is_empty() {
                    out.push(vv(
                        "C08",
                        "missing_bytes_not_requested",
                        if missing[0].0 == 0 { "first_segment".into() } else { "later".into() },
                        format!("txn {:?}: after the delivery at seq {} (EOF size {}) the receiver held {:?}; the NAKs issued until the next delivery / {} us later request {:?}: not requested {:?}", t.key, wseq, size, h.set.0, need_us, union.0, missing),
                    ));
                }
                if need_md && !asked_md {
                    out.push(v("C08", "missing_metadata_not_requested", format!("txn {:?}: metadata undelivered at seq {} (EOF in) but no NAK issued in the following {} us requests (0,0)", t.key, wseq, need_us)));
                }
            }
        }
    }

    // (e) immediate procedure: a newly detected gap is requested at the next opportunity, or after
    // the configured delay if it persists
    if e.nak_immediate && !user_touched {
        let mut set = IntervalSet::default();
        let mut eof_in = false;
        for (ri, r) in recvd.iter().enumerate() {
            let Some(p) = &r.pdu else { continue };
            match kind_of(p) {
                Kind::Eof => eof_in = true,
                Kind::Fd => {
                    let Some((x, y, _)) = fd_range(p) else { continue };
                    let prev_end = set.max_end();
                    let newgap = x > prev_end && y > x && !eof_in;
                    set.insert(x, y);
                    if !newgap || r.seq >= stop_seq {
                        continue;
                    }
                    let deadline = r.vt + e.nak_delay_ms * 1000 + 3 * ser_eff + 4000;
                    // the gap persists and nothing else changes the picture until the deadline
                    let disturbed = recvd[ri + 1..].iter().any(|q| q.vt <= deadline && q.pdu.as_ref().map(|pp| matches!(kind_of(pp), Kind::Fd | Kind::Eof | Kind::Md | Kind::Prompt)).unwrap_or(false));
                    if disturbed || deadline >= stop_vt.min(a.rec.end_vt) {
                        continue;
                    }
                    let mut asked = IntervalSet::default();
                    for s in naks.iter().filter(|s| s.seq > r.seq && s.vt <= deadline) {
                        if let Some(Operations::Nak(n)) = s.pdu.as_ref().and_then(|pp| op_of(pp)) {
                            for q in &n.segment_requests {
                                asked.insert(q.start_offset, q.end_offset);
                            }
                        }
                    }
                    if !asked.covers(prev_end, x) {
                        out.push(v("C08", "immediate_gap_not_requested", format!("txn {:?}: immediate procedure (delay {} ms): data [{}, {}) delivered at seq {} opened the gap [{}, {}), which persisted, but the NAKs up to {} us request only {:?}", t.key, e.nak_delay_ms, x, y, r.seq, prev_end, x, deadline, asked.0)));
                    }
                }
                _ => {}
            }
        }
    }
}

// ---------------------------------------------------------------------------------------------
// scenarios

/// what the scripted sender delivers, in order
#[derive(Clone, Debug, PartialEq)]
enum Item {
    Md,
    Seg(usize),
    Eof,
    PromptNak,
    PromptKa,
}

fn rx_scenario(cfg: (bool, u64, u16, u8), nseg: usize, seglen: u64, last_short: bool, order: &[Item]) -> Scenario {
    let (imm, delay, seg, idw) = cfg;
    let mut sc = Scenario::default();
    sc.family = "rx".into();
    sc.idw = idw;
    sc.ents[0].real = false;
    let e = &mut sc.ents[1];
    e.seg = seg;
    e.nak_immediate = imm;
    e.nak_delay_ms = delay;
    e.limit = 2;
    e.t_nak = 2;
    e.t_ack = 2;
    e.t_inact = 30;
    let size = if nseg == 0 { 0 } else { (nseg as u64 - 1) * seglen + if last_short { 1 + seglen / 2 } else { seglen } };
    let data = content::gen(&FileSpec { size, class: Content::Counter, cseed: 0 });
    let h = Hdr { idw, src: 1, seq: 3, dst: 2, unack: false, crc: false, large: false };
    let mut t = 1000u64;
    for it in order {
        let bytes = match it {
            Item::Md => h.metadata(size, "remote", "out.bin", false, false, vec![]),
            Item::Seg(k) => {
                let a = *k as u64 * seglen;
                let b = (a + seglen).min(size);
                h.filedata(a, &data[a as usize..b as usize])
            }
            Item::Eof => h.eof(Condition::NoError, content::modular_checksum(&data), size),
            Item::PromptNak => h.prompt(false),
            Item::PromptKa => h.prompt(true),
        };
        sc.script.push(Entry::Inject { src: 0, dst: 1, what: What::Raw(bytes), at: Trigger::At(t), delay_us: 0 });
        t += 700_000; // far apart: delayed NAKs (<= 400 ms) fire between deliveries
    }
    sc.horizon_ms = t / 1000 + 12_000;
    sc
}

fn orders(present: &[Item], rng: &mut Rng) -> Vec<Vec<Item>> {
    let md: Vec<Item> = present.iter().filter(|i| **i == Item::Md).cloned().collect();
    let segs: Vec<Item> = present.iter().filter(|i| matches!(i, Item::Seg(_))).cloned().collect();
    let mut v = vec![];
    // in order, EOF last
    v.push([md.clone(), segs.clone(), vec![Item::Eof]].concat());
    // reversed data
    let mut rs = segs.clone();
    rs.reverse();
    v.push([md.clone(), rs.clone(), vec![Item::Eof]].concat());
    // EOF first, then everything else (data after EOF)
    v.push([vec![Item::Eof], md.clone(), segs.clone()].concat());
    // metadata last, duplicated EOF
    v.push([segs.clone(), vec![Item::Eof, Item::Eof], md.clone()].concat());
    // prompts in the middle
    let mut w = [md.clone(), segs.clone()].concat();
    let pos = if w.is_empty() { 0 } else { rng.usize_below(w.len() + 1) };
    w.insert(pos, Item::PromptNak);
    w.push(Item::PromptKa);
    w.push(Item::Eof);
    w.push(Item::PromptNak);
    v.push(w);
    // EOF in the middle of the data
    if segs.len() >= 2 {
        let mut m = [md.clone(), segs.clone()].concat();
        m.insert(md.len() + segs.len() / 2, Item::Eof);
        v.push(m);
    }
    v
}

fn build(_ctx: &Ctx, tier: Tier, seed: u64) -> Vec<Job<'static>> {
    let (kmax, n_big, n_pair) = match tier {
        Tier::Quick => (5usize, 6_000usize, 60_000usize),
        Tier::Thorough => (6, 60_000, 500_000),
    };
    let mut rng = Rng::new(seed ^ 0xC085);
    let mut sweep: Vec<Scenario> = vec![];
    let cfgs: [(bool, u64); 4] = [(false, 0), (false, 300), (true, 0), (true, 300)];
    for k in 0..=kmax {
        for mask in 0..(1u32 << (k + 1)) {
            // bit 0 = metadata lost, bit i = segment i-1 lost
            let mut present = vec![];
            if mask & 1 == 0 {
                present.push(Item::Md);
            }
            for sgi in 0..k {
                if mask >> (sgi + 1) & 1 == 0 {
                    present.push(Item::Seg(sgi));
                }
            }
            for (ci, (imm, delay)) in cfgs.iter().enumerate() {
                let seg = [24u16, 32, 64][(mask as usize + ci) % 3];
                let idw = [1u8, 2, 4, 8][(mask as usize + k) % 4];
                for o in orders(&present, &mut rng) {
                    sweep.push(rx_scenario((*imm, *delay, seg, idw), k, 10, mask % 2 == 1 || k % 2 == 0, &o));
                }
            }
        }
    }
    let sw = Arc::new(sweep);
    let sw2 = sw.clone();
    let j0 = Job {
        label: "scripted sender: every subset of lost segments and metadata for files of 0..k segments x 6 arrival orders (EOF first, data after EOF, duplicated EOF, metadata last, prompts, EOF mid-data) x deferred/immediate x delay 0/300 ms".into(),
        n: sw.len(),
        gen: Box::new(move |i| sw2[i].clone()),
    };
    let j1 = Job {
        label: "scripted sender: files of up to 200 small segments with seeded loss subsets (NAK lists split over several PDUs)".into(),
        n: n_big,
        gen: Box::new(move |i| {
            let mut rng = Rng::new(mix(seed ^ 0xC08B, i as u64));
            let k = rng.range(8, 200) as usize;
            let mut present = vec![];
            if rng.chance(4, 5) {
                present.push(Item::Md);
            }
            let p_loss = *rng.pick(&[2u64, 4, 10, 30]);
            for s in 0..k {
                if !rng.chance(1, p_loss) {
                    present.push(Item::Seg(s));
                }
            }
            let os = orders(&present, &mut rng);
            let o = os[rng.usize_below(os.len())].clone();
            let mut sc = rx_scenario((rng.chance(1, 2), *rng.pick(&[0u64, 0, 100]), *rng.pick(&[24u16, 32, 64, 100]), *rng.pick(&[1u8, 2, 4, 8])), k, 4, rng.chance(1, 2), &o);
            // deliveries closer together for the long files
            let mut t = 1000u64;
            for e in sc.script.iter_mut() {
                if let Entry::Inject { at, .. } = e {
                    *at = Trigger::At(t);
                    t += *rng.pick(&[0u64, 1000, 1000, 150_000]);
                }
            }
            sc.horizon_ms = t / 1000 + 12_000;
            sc
        }),
    };
    let j2 = Job {
        label: "two real daemons under wild loss/dup/delay on both directions (NAK rounds race with retransmissions), a quarter with a suspend/resume of the receiving user inside the first pass".into(),
        n: n_pair,
        gen: Box::new(move |i| {
            let mut rng = Rng::new(mix(seed ^ 0xC08C, i as u64));
            let k = Knobs { unack: Some(false), max_segments: 60, seg_choices: vec![24, 25, 31, 32, 64, 100, 1024], ..Knobs::default() };
            let mut sc = gen::pair_cfg(&mut rng, &k);
            if rng.chance(1, 2) {
                sc.ser_us = 1000;
            }
            gen::add_file_put(&mut sc, &mut rng, &k, 0, 1, 0);
            let prof = crate::checks::estimate_profile(&sc);
            sc.script = gen::wild_script(&mut rng, &sc, &prof, 0, 1);
            if rng.chance(1, 4) {
                sc.script.push(Entry::User { ent: 0, op: UserOp::PromptNak, put: 0, at: Trigger::AfterPdu { src: 0, dst: 1, n: rng.below(prof.fwd.len() as u64 + 1) as u32 } });
            }
            // the receiving user suspends and resumes in the middle of the first pass (round 7): a resume
            // is no licence for an unsolicited NAK under the deferred procedure
            if rng.chance(1, 4) {
                let at = Trigger::AfterPdu { src: 0, dst: 1, n: rng.below(prof.fwd.len() as u64) as u32 };
                sc.script.push(Entry::User { ent: 1, op: UserOp::Suspend, put: 0, at: at.clone() });
                sc.script.push(Entry::User { ent: 1, op: UserOp::Resume, put: 0, at: Trigger::Plus(Box::new(at), *rng.pick(&[0u64, 1000, 20_000, 300_000])) });
            }
            sc
        }),
    };
    vec![j0, j1, j2]
}

fn probes(a: &Analysis, out: &mut Vec<&'static str>) {
    common_probes(a, out);
    for t in a.txns.values() {
        let naks: Vec<_> = t.at_dst.sent.iter().filter(|s| s.kind == Kind::Nak).collect();
        if naks.len() >= 2 && naks.windows(2).any(|w| w[0].vt == w[1].vt) {
            out.push("nak_list_split_over_several_pdus");
        }
        let eof_seq = t.at_dst.recvd.iter().find(|r| r.pdu.as_ref().map(|p| kind_of(p) == Kind::Eof).unwrap_or(false)).map(|r| r.seq);
        if let Some(es) = eof_seq {
            if naks.iter().any(|s| s.seq < es) {
                out.push("nak_before_eof");
            }
            if t.at_dst.recvd.iter().any(|r| r.seq > es && r.pdu.as_ref().map(|p| kind_of(p) == Kind::Fd).unwrap_or(false)) {
                out.push("data_after_eof");
            }
            if t.at_dst.recvd.iter().take_while(|r| r.seq <= es).all(|r| r.pdu.as_ref().map(|p| kind_of(p) == Kind::Eof).unwrap_or(true)) {
                out.push("eof_first");
            }
        }
    }
    out.sort();
    out.dedup();
}

pub fn check() -> Check {
    Check {
        prop: "C08",
        level: "exploration",
        rule: "scripted sender -> real receiver: for files of 0..k segments (quick k=4, thorough k=6) EVERY subset of lost {metadata, segments} x 6 arrival orders x {deferred, immediate} x {0, 300 ms} delay x NAK capacities of 2/3/7 requests per PDU; seeded long files (up to 200 segments) whose request lists must be split; two real daemons under wild faults; every NAK PDU of the receiver is judged; non-trivial = a PDU was injected or a fault fired; distinct = distinct history fingerprint",
        assumptions: vec![
            "what the receiver held when it created a NAK is one of the admissible FIFO prefixes of what its transport had pulled (prefix consistency, creation no earlier than the previous PDU of that entity was logged)",
            "coverage is judged over all NAKs issued between a delivery after EOF and the next delivery of data/metadata, and only if that window is longer than the NAK delay plus the time the link needs for the PDUs of one round",
            "only the first incarnation of a receive transaction, no user operations on it, acknowledged mode",
        ],
        oracle: Box::new(c08),
        cross: Box::new(safety_cross),
        probes: Box::new(probes),
        build,
        admissible: Box::new(domain_basic),
        real: REAL_SIM.to_vec(),
        stub: STUB_SIM.to_vec(),
    }
}
