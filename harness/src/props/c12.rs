//! C12: filestore operations cannot reach outside the filestore root.
//!
//! The names arrive the way they do in deployment: from a remote entity in metadata and filestore
//! requests (scripted peer -> real receiver -> NativeFileStore -> tmpfs) and from the local user in
//! a Put (real sender reads the source). The observable is disk state: everything in the run's
//! jail directory outside the entity roots (a secret, a victim file, an empty drop zone, a sibling
//! directory whose name extends the root's) must stay byte-identical, and the secret must never
//! travel. The deciding step is bounded-exhaustive enumeration of names (see DESIGN 6/C12).

use std::sync::Arc;

use camino::Utf8PathBuf;
use cfdp_core::filestore::{FileStore, NativeFileStore};
use cfdp_core::pdu::Condition;

use crate::{
    analysis::{fd_range, Analysis, Violation},
    checks::{common_probes, domain_basic, Check, Tier, REAL_SIM, STUB_SIM},
    content, oracle,
    pdus::Hdr,
    prng::{mix, Rng},
    props::{pre_dir, pre_file},
    runner::{Ctx, Job},
    scenario::*,
};

pub const TOKENS: [&str; 8] = ["a", ".", "..", "", "{ROOT}", "{ROOTX}", "victim", "dropzone"];

/// every name of 1..=max tokens, with and without a leading separator
pub fn names(max: usize) -> Vec<String> {
    let mut out = vec![];
    let mut cur: Vec<Vec<&str>> = vec![vec![]];
    for _ in 0..max {
        let mut next = vec![];
        for c in &cur {
            for t in TOKENS {
                let mut n = c.clone();
                n.push(t);
                next.push(n);
            }
        }
        for n in &next {
            let j = n.join("/");
            out.push(j.clone());
            out.push(format!("/{}", j));
        }
        cur = next;
    }
    out.sort();
    out.dedup();
    out
}

const PAYLOAD: &[u8] = b"delivered-payload-0123456789";

/// scripted sender (entity 0) delivers one unacknowledged transaction to the real entity 1
fn rx_scenario(dst_name: &str, reqs: Vec<Req>, seq: u64, idw: u8) -> Scenario {
    let mut sc = Scenario::default();
    sc.family = "rx".into();
    sc.idw = idw;
    sc.ents[0].real = false;
    sc.pre = vec![pre_file(1, "inside.txt", 12, 5), pre_file(1, "other.txt", 7, 6), pre_dir(1, "indir"), pre_file(1, "a", 9, 7), pre_dir(1, "dropzone"), pre_file(1, "victim", 11, 8)];
    let h = Hdr { idw, src: 1, seq, dst: 2, unack: true, crc: false, large: false };
    let at = Trigger::At(1000);
    sc.script.push(Entry::Inject {
        src: 0,
        dst: 1,
        what: What::Meta { seq, unack: true, closure: false, null: false, size: PAYLOAD.len() as u64, src_name: "remote-src".into(), dst_name: dst_name.into(), reqs },
        at: at.clone(),
        delay_us: 0,
    });
    sc.script.push(Entry::Inject { src: 0, dst: 1, what: What::Raw(h.filedata(0, PAYLOAD)), at: at.clone(), delay_us: 10 });
    sc.script.push(Entry::Inject { src: 0, dst: 1, what: What::Raw(h.eof(Condition::NoError, content::modular_checksum(PAYLOAD), PAYLOAD.len() as u64)), at, delay_us: 20 });
    sc.horizon_ms = 12_000;
    sc
}

/// a local user asks the real entity 0 to send a file whose source name is hostile
fn tx_scenario(src_name: &str, idw: u8) -> Scenario {
    let mut sc = Scenario::default();
    sc.family = "pair".into();
    sc.idw = idw;
    sc.pre = vec![pre_file(0, "inside.txt", 12, 5), pre_file(0, "a", 9, 7), pre_file(0, "victim", 11, 8)];
    sc.puts.push(Put { src: 0, dst: 1, unack: true, src_name: src_name.into(), dst_name: "out.bin".into(), file: None, reqs: vec![], msgs: vec![], at: Trigger::At(0) });
    sc.horizon_ms = 12_000;
    sc
}

fn build(_ctx: &Ctx, tier: Tier, seed: u64) -> Vec<Job<'static>> {
    let (full_tokens, n_sample) = match tier {
        Tier::Quick => (2usize, 6_000usize),
        Tier::Thorough => (4, 0),
    };
    let base = Arc::new(names(full_tokens));
    let all4 = Arc::new(names(4));
    let pick = move |i: usize, base: &Arc<Vec<String>>, all4: &Arc<Vec<String>>| -> String {
        if i < base.len() {
            base[i].clone()
        } else {
            let mut rng = Rng::new(mix(seed ^ 0xC12A, i as u64));
            all4[rng.usize_below(all4.len())].clone()
        }
    };
    let n = base.len() + n_sample;
    let (b1, a1) = (base.clone(), all4.clone());
    let p1 = pick.clone();
    let j_dest = Job {
        label: "remote metadata: destination name from the name alphabet (scripted sender -> real receiver)".into(),
        n,
        gen: Box::new(move |i| rx_scenario(&p1(i, &b1, &a1), vec![], 1, [1u8, 2, 4, 8][i % 4])),
    };
    let (b2, a2) = (base.clone(), all4.clone());
    let p2 = pick.clone();
    let j_req1 = Job {
        label: "remote filestore requests: every action x hostile FIRST name".into(),
        n: n * 9,
        gen: Box::new(move |i| {
            let name = p2(i / 9, &b2, &a2);
            let action = (i % 9) as u8;
            rx_scenario("delivered.bin", vec![Req { action, first: name, second: "other.txt".into() }], 2, [1u8, 2, 4, 8][i % 4])
        }),
    };
    let (b3, a3) = (base.clone(), all4.clone());
    let p3 = pick.clone();
    let j_req2 = Job {
        label: "remote filestore requests: rename/append/replace x hostile SECOND name (first name is an existing file inside the root)".into(),
        n: n * 3,
        gen: Box::new(move |i| {
            let name = p3(i / 3, &b3, &a3);
            let action = [2u8, 3, 4][i % 3];
            rx_scenario("delivered.bin", vec![Req { action, first: "inside.txt".into(), second: name }], 3, [1u8, 2, 4, 8][i % 4])
        }),
    };
    let (b4, a4) = (base.clone(), all4.clone());
    let p4 = pick.clone();
    let j_src = Job {
        label: "local user: Put with a hostile SOURCE name (read escape)".into(),
        n,
        gen: Box::new(move |i| tx_scenario(&p4(i, &b4, &a4), [1u8, 2, 4, 8][i % 4])),
    };
    // direct calls of the filestore operations (a local user of the library): every operation x
    // hostile first name, and the two-name operations x hostile second name
    let (b5, a5) = (base.clone(), all4.clone());
    let p5 = pick.clone();
    let j_direct = Job {
        label: "local user: every filestore operation called directly (create, delete, rename, append, replace, mkdir, rmdir, open for writing / reading, size, listing) x hostile first name; rename / append / replace x hostile second name".into(),
        n: n * 16,
        gen: Box::new(move |i| {
            let name = p5(i / 16, &b5, &a5);
            let k = i % 16;
            let (action, first, second) = if k < 13 { (k as u8, name, "inside.txt".to_string()) } else { ([2u8, 3, 4][k - 13], "inside.txt".to_string(), name) };
            let mut sc = rx_scenario("delivered.bin", vec![], 4, [1u8, 2, 4, 8][i % 4]);
            sc.script.push(Entry::FsFault { ent: 1, op: format!("call:{}:{}:{}", action, hex(first.as_bytes()), hex(second.as_bytes())), nth: u32::MAX });
            sc
        }),
    };
    vec![j_dest, j_req1, j_req2, j_src, j_direct]
}

fn lexical(p: &str) -> Vec<String> {
    let mut out: Vec<String> = vec![];
    for c in p.split('/') {
        match c {
            "" | "." => {}
            ".." => {
                out.pop();
            }
            x => out.push(x.to_string()),
        }
    }
    out
}

fn subst(name: &str, root: &str, ent: usize) -> String {
    name.replace("{ROOTX}", &format!("{}/jail/e{}x", root, ent)).replace("{ROOT}", &format!("{}/jail/e{}", root, ent)).replace("{JAIL}", &format!("{}/jail", root))
}

pub fn c12(a: &Analysis) -> Vec<Violation> {
    let mut out = oracle::c12_sentinel(a);
    let rec = a.rec;
    // every name the scenario hands to a filestore, with the entity whose filestore resolves it
    let mut used: Vec<(usize, String)> = vec![];
    for p in &rec.sc.puts {
        used.push((p.src, p.src_name.clone()));
        used.push((p.dst, p.dst_name.clone()));
        for r in &p.reqs {
            used.push((p.dst, r.first.clone()));
            used.push((p.dst, r.second.clone()));
        }
    }
    for e in &rec.sc.script {
        if let Entry::Inject { dst, what: What::Meta { dst_name, reqs, .. }, .. } = e {
            used.push((*dst, dst_name.clone()));
            for r in reqs {
                used.push((*dst, r.first.clone()));
                used.push((*dst, r.second.clone()));
            }
        }
    }
    for (ent, name) in used {
        if ent >= rec.sc.ents.len() || !rec.sc.ents[ent].real {
            continue;
        }
        let root = format!("{}/jail/e{}", rec.root, ent);
        let real_name = subst(&name, &rec.root, ent);
        let native = NativeFileStore::new(Utf8PathBuf::from(root.clone())).get_native_path(Utf8PathBuf::from(real_name.clone()));
        let lex = lexical(native.as_str());
        let rootc = lexical(&root);
        if lex.len() < rootc.len() || lex[..rootc.len()] != rootc[..] {
            out.push(oracle::vv(
                "C12",
                "native_path_outside_root",
                if name.starts_with("{ROOT}") { "root-prefixed".into() } else { "other".into() },
                format!("name '{}' maps to native path '{}', which is lexically outside the root '{}'", name, native, root.replace(&rec.root, "<run>")),
            ));
        }
    }
    // the secret and the victim never travel and never show up inside a root
    let secrets: [&[u8]; 2] = [b"TOP-SECRET-SENTINEL-0123456789abcdef", b"victim-content"];
    for s in &a.sends {
        if let Some((_, _, data)) = s.pdu.as_ref().and_then(|p| fd_range(p)) {
            for sec in secrets {
                if data.len() >= 8 && sec.windows(data.len().min(sec.len())).any(|w| w == &data[..data.len().min(sec.len())]) {
                    out.push(oracle::v("C12", "outside_file_content_sent", format!("a file-data PDU at seq {} carries bytes of a file outside the root: {:?}", s.seq, String::from_utf8_lossy(data))));
                }
            }
        }
    }
    for fs in &rec.fs_final {
        for (path, c) in fs {
            if let Some(c) = c {
                for sec in secrets {
                    if c.len() >= sec.len() && c.windows(sec.len()).any(|w| w == sec) {
                        out.push(oracle::v("C12", "outside_file_content_copied_into_root", format!("file '{}' inside a root contains the bytes of a file outside the root", path)));
                    }
                }
            }
        }
    }
    out
}

fn probes(a: &Analysis, out: &mut Vec<&'static str>) {
    common_probes(a, out);
    for e in &a.rec.events {
        if let crate::world::EvKind::Fs { op, .. } = &e.k {
            match op {
                crate::world::FsOp::Request { resp, .. } => {
                    out.push(if resp.action_and_status.is_fail() { "filestore_request_failed" } else { "filestore_request_succeeded" });
                }
                crate::world::FsOp::Open { ok, .. } => out.push(if *ok { "filestore_open_ok" } else { "filestore_open_failed" }),
                _ => {}
            }
        }
    }
    if a.inds.iter().any(|i| matches!(&i.ind, cfdp_core::daemon::Indication::Finished(f) if crate::analysis::is_success(f))) {
        out.push("hostile_name_transaction_delivered");
    }
    out.sort();
    out.dedup();
}

pub fn check() -> Check {
    Check {
        prop: "C12",
        level: "exploration",
        rule: "names = all sequences of 1..k tokens from {a, ., .., '', <root>, <root>x (sibling whose name extends the root's), victim, dropzone} joined by '/', with and without a leading '/' (quick: k<=2 complete + seeded sample of k<=4; thorough: k<=4 complete, 9360 names); each name is used as remote destination name, as first name of each of the 9 filestore actions, as second name of rename/append/replace, and as local source name; one run = one transaction through the real daemon and NativeFileStore on tmpfs; every run is non-trivial (it resolves at least one hostile name); distinct = distinct history fingerprint",
        assumptions: vec![
            "no symbolic links inside the roots (the statement is about lexical containment)",
            "observables: digest of the whole jail directory outside the entity roots before/after the run, content of every file inside the roots, every FileData PDU, and the native path computed by the public get_native_path",
            "the deciding step is bounded-exhaustive enumeration of names through the simulated end-to-end path, not schedule search",
        ],
        oracle: Box::new(c12),
        cross: Box::new(|a| oracle::c01(a)),
        probes: Box::new(probes),
        build,
        admissible: Box::new(domain_basic),
        real: REAL_SIM.to_vec(),
        stub: STUB_SIM.to_vec(),
    }
}

pub fn selftest(seed: u64, i: usize) -> Scenario {
    let n = names(2);
    let name = &n[i % n.len()];
    if i % 20 < 10 {
        rx_scenario(name, vec![Req { action: (i % 9) as u8, first: name.clone(), second: "other.txt".into() }], 2, 2)
    } else {
        tx_scenario(name, 4)
    }
}
