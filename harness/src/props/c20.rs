//! C20: progress figures reported to users and peers are truthful.
//!
//! Observation points are forced: Prompt(KeepAlive) from the sending user (the receiver answers
//! with a KeepAlive PDU carrying its progress), suspend/resume at either side (Resumed carries
//! progress), blackouts that run a side into a limit fault (Fault / Abandon carry progress).

use cfdp_core::daemon::Indication;
use cfdp_core::pdu::Operations;
use cfdp_core::transaction::TransactionState;

use crate::{
    analysis::{fd_range, op_of, Analysis, IntervalSet, RecvRef, Txn, Violation},
    checks::{common_probes, domain_basic, safety_cross, Check, Tier, REAL_SIM, STUB_SIM},
    gen::{self, Knobs},
    oracle::{v, vv},
    prng::{mix, Rng},
    runner::{Ctx, Job},
    scenario::*,
    world::kind_of,
};

fn scenario(seed: u64, i: usize) -> Scenario {
    let mut rng = Rng::new(mix(seed ^ 0xC20A, i as u64));
    let k = Knobs { unack: Some(rng.chance(1, 5)), max_segments: 30, limit_min: 1, limit_max: 3, ..Knobs::default() };
    let mut sc = gen::pair_cfg(&mut rng, &k);
    if rng.chance(3, 4) {
        sc.ser_us = 1000;
    }
    gen::add_file_put(&mut sc, &mut rng, &k, 0, 1, 0);
    let prof = crate::checks::estimate_profile(&sc);
    let nf = prof.fwd.len() as u32;
    if rng.chance(2, 3) {
        sc.script = gen::wild_script(&mut rng, &sc, &prof, 0, 1);
    }
    // handlers: abandon on a limit fault reports progress too
    for e in sc.ents.iter_mut() {
        if rng.chance(1, 3) {
            e.handlers.push((*rng.pick(&[1u8, 7, 8]), 4));
        }
    }
    // a cancel at the sender in mid-transfer whose handshake is not answered: the Abandon that
    // follows (and a suspend / resume of the cancelled transaction) reports the sender's progress
    if rng.chance(1, 6) {
        let at = Trigger::AfterPdu { src: 0, dst: 1, n: rng.below(nf as u64 + 1) as u32 };
        sc.script.push(Entry::User { ent: 0, op: UserOp::Cancel, put: 0, at: at.clone() });
        if rng.chance(2, 3) {
            sc.script.push(Entry::Blackout { src: 1, dst: 0, from: at.clone(), until: Trigger::Never });
        }
        if rng.chance(1, 2) {
            sc.script.push(Entry::User { ent: 0, op: UserOp::Suspend, put: 0, at: Trigger::Plus(Box::new(at.clone()), 1000) });
            sc.script.push(Entry::User { ent: 0, op: UserOp::Resume, put: 0, at: Trigger::Plus(Box::new(at), 5000) });
        }
    }
    let nops = rng.range(1, 5);
    for _ in 0..nops {
        let at = Trigger::AfterPdu { src: 0, dst: 1, n: rng.below(nf as u64 + 2) as u32 };
        match rng.below(6) {
            0 | 1 => sc.script.push(Entry::User { ent: 0, op: UserOp::PromptKa, put: 0, at }),
            2 => sc.script.push(Entry::User { ent: 0, op: UserOp::PromptNak, put: 0, at }),
            3 | 4 => {
                let ent = rng.usize_below(2);
                sc.script.push(Entry::User { ent, op: UserOp::Suspend, put: 0, at: at.clone() });
                sc.script.push(Entry::User { ent, op: UserOp::Resume, put: 0, at: Trigger::Plus(Box::new(at), *rng.pick(&[0u64, 1000, 300_000, 2_000_000])) });
            }
            _ => {
                let (s, d) = if rng.chance(1, 2) { (0, 1) } else { (1, 0) };
                sc.script.push(Entry::Blackout { src: s, dst: d, from: at, until: if rng.chance(1, 2) { Trigger::Never } else { Trigger::At(rng.range(1_000_000, 9_000_000)) } });
            }
        }
    }
    sc
}

fn build(_ctx: &Ctx, tier: Tier, seed: u64) -> Vec<Job<'static>> {
    let n = match tier {
        Tier::Quick => 80_000,
        Tier::Thorough => 2_000_000,
    };
    let j0 = Job { label: "two real daemons: wild link faults + KeepAlive prompts, suspend/resume at either side, blackouts into limit faults, abandon handlers".into(), n, gen: Box::new(move |i| scenario(seed, i)) };
    // a scripted sender re-segments freely (one PDU spanning several held segments and gaps),
    // which this implementation's own sender never does
    let j1 = Job {
        label: "scripted sender: overlapping / duplicated / re-segmented data with KeepAlive prompts, receiver suspend+resume, then silence into the receiver's limit fault".into(),
        n: n / 4,
        gen: Box::new(move |i| {
            let mut sc = crate::props::c09::rx_history(seed ^ 0x20, i);
            let mut rng = Rng::new(mix(seed ^ 0xC20B, i as u64));
            let last = sc.script.iter().filter_map(|e| if let Entry::Inject { at: Trigger::At(t), .. } = e { Some(*t) } else { None }).max().unwrap_or(1000);
            if rng.chance(1, 2) {
                let t = rng.range(1000, last.max(2000));
                sc.script.push(Entry::User { ent: 1, op: UserOp::Suspend, put: RAW_TXN + 7, at: Trigger::At(t) });
                sc.script.push(Entry::User { ent: 1, op: UserOp::Resume, put: RAW_TXN + 7, at: Trigger::At(t + rng.range(0, 5000)) });
            }
            sc.ents[1].t_inact = 2;
            sc.ents[1].t_nak = 1;
            sc.horizon_ms = last / 1000 + 20_000;
            sc
        }),
    };
    vec![j0, j1]
}

fn held_of<'a>(it: impl Iterator<Item = &'a RecvRef>) -> IntervalSet {
    let mut set = IntervalSet::default();
    for r in it {
        if let Some((x, y, _)) = r.pdu.as_ref().and_then(|p| fd_range(p)) {
            set.insert(x, y);
        }
    }
    set
}

/// Progress values the receiver may truthfully report in something logged at (seq, vt): the
/// number of distinct bytes in every admissible prefix of what its transport pulled for this
/// transaction (DESIGN section 4). An indication is computed and logged at the same instant, so
/// only same-instant deliveries are ambiguous. A PDU is logged when the transport task hands it to
/// the link, which can be one serialisation time after the transaction created it: it was created
/// no earlier than the instant `not_before` at which the previous PDU of this entity was logged
/// (the single-slot channel to the transport frees up then), so every delivery pulled from that
/// instant on is ambiguous.
fn receiver_candidates(recvd: &[RecvRef], seq: u64, vt: u64, not_before: Option<u64>) -> Vec<u64> {
    let lo = not_before.unwrap_or(vt).min(vt);
    let certain: Vec<&RecvRef> = recvd.iter().filter(|r| r.vt < lo).collect();
    let maybe: Vec<&RecvRef> = recvd.iter().filter(|r| r.vt >= lo && r.seq < seq).collect();
    (0..=maybe.len()).map(|k| held_of(certain.iter().copied().chain(maybe[..k].iter().copied())).total()).collect()
}

pub fn c20(a: &Analysis) -> Vec<Violation> {
    let mut out = vec![];
    for t in a.txns.values() {
        let Some(pi) = t.put else {
            // a transaction driven by a scripted sender: the file size is what its EOF / metadata say
            if let Some(d) = t.dst_ent {
                if a.rec.sc.ents[d].real {
                    let size = t
                        .at_dst
                        .recvd
                        .iter()
                        .filter_map(|r| match r.pdu.as_ref().and_then(|p| op_of(p)) {
                            Some(Operations::EoF(e)) => Some(e.file_size),
                            Some(Operations::Metadata(m)) => Some(m.file_size),
                            _ => None,
                        })
                        .max()
                        .unwrap_or(u64::MAX);
                    receiver_side(a, t, size, &mut out);
                }
            }
            continue;
        };
        let put = &a.rec.sc.puts[pi];
        let size = put.file.as_ref().map(|f| f.size).unwrap_or(0);
        if let Some(d) = t.dst_ent {
            if a.rec.sc.ents[d].real {
                receiver_side(a, t, size, &mut out);
            }
        }
        if a.rec.sc.ents[t.src_ent].real {
            sender_side(a, t, pi, size, &mut out);
        }
    }
    out
}

fn receiver_side(a: &Analysis, t: &Txn, size: u64, out: &mut Vec<Violation>) {
    // only the first incarnation of the receive transaction (a re-spawned one starts from zero)
    let end = t
        .at_dst
        .inds
        .iter()
        .find(|i| matches!(&i.ind, Indication::Report(r) if r.state == TransactionState::Terminated))
        .map(|i| i.seq)
        .unwrap_or(u64::MAX);
    let recvd: Vec<RecvRef> = t.at_dst.recvd.iter().filter(|r| r.seq < end).cloned().collect();
    // (seq, vt, what, value, creation not before)
    let mut reports: Vec<(u64, u64, &'static str, u64, Option<u64>)> = vec![];
    let dst = t.dst_ent.unwrap_or(usize::MAX);
    for s in t.at_dst.sent.iter().filter(|s| s.seq < end) {
        if let Some(Operations::KeepAlive(k)) = s.pdu.as_ref().and_then(|p| op_of(p)) {
            // the previous datagram this entity handed to the link (any transaction)
            let prev = a.sends.iter().filter(|x| x.src == dst && !x.injected && x.seq < s.seq).last().map(|x| x.vt);
            reports.push((s.seq, s.vt, "keepalive_pdu", k.progress, Some(prev.unwrap_or(0))));
        }
    }
    for i in t.at_dst.inds.iter().filter(|i| i.seq < end) {
        match &i.ind {
            Indication::Fault(f) => reports.push((i.seq, i.vt, "fault_indication", f.progress, None)),
            Indication::Abandon(f) => reports.push((i.seq, i.vt, "abandon_indication", f.progress, None)),
            Indication::Resumed(r) => reports.push((i.seq, i.vt, "resumed_indication", r.progress, None)),
            _ => {}
        }
    }
    reports.sort();
    // monotonic: only reports that are ordered for certain are compared - an indication is
    // computed at its own instant, a PDU somewhere in [not_before, vt]
    let mut certain_before: Vec<(u64, u64)> = vec![]; // (latest possible creation instant, value)
    for (seq, vt, what, val, nb) in reports {
        let cands = receiver_candidates(&recvd, seq, vt, nb);
        if !cands.contains(&val) {
            out.push(vv(
                "C20",
                "receiver_progress_not_distinct_bytes_held",
                format!("{}/{}", what, if val > *cands.iter().max().unwrap_or(&0) { "over" } else { "under" }),
                format!("txn {:?}: receiver {} at seq {} reports progress {}, it holds {:?} distinct bytes", t.key, what, seq, val, cands),
            ));
        }
        if val > size {
            out.push(v("C20", "receiver_progress_exceeds_file_size", format!("txn {:?}: receiver {} at seq {} reports {} for a {}-byte file", t.key, what, seq, val, size)));
        }
        let earliest = nb.unwrap_or(vt).min(vt);
        if let Some((_, prev)) = certain_before.iter().filter(|(latest, _)| *latest < earliest).max_by_key(|(_, p)| *p) {
            if val < *prev {
                out.push(v("C20", "receiver_progress_decreased", format!("txn {:?}: receiver {} at seq {} reports {}, an earlier report said {}", t.key, what, seq, val, prev)));
            }
        }
        certain_before.push((vt, val));
    }
}

fn sender_side(a: &Analysis, t: &Txn, pi: usize, size: u64, out: &mut Vec<Violation>) {
    let seg = a.rec.sc.ents[a.rec.sc.puts[pi].src].seg as u64;
    // first-pass file data PDUs in emission order: running maximum of offset + length
    let mut cursor = 0u64;
    let mut firsts: Vec<(u64, u64, u64)> = vec![]; // (seq, vt, running max)
    let mut eof_seen = false;
    for s in &t.at_src.sent {
        let Some(p) = &s.pdu else { continue };
        match kind_of(p) {
            Kind::Eof => eof_seen = true,
            Kind::Fd => {
                if let Some((x, y, _)) = fd_range(p) {
                    if !eof_seen && x == cursor && (y - x) == seg.min(size - cursor.min(size)) {
                        cursor = y;
                        firsts.push((s.seq, s.vt, cursor));
                    }
                }
            }
            _ => {}
        }
    }
    let mut last = 0u64;
    for i in &t.at_src.inds {
        let (what, val) = match &i.ind {
            Indication::Fault(f) => ("fault_indication", f.progress),
            Indication::Abandon(f) => ("abandon_indication", f.progress),
            Indication::Resumed(r) => ("resumed_indication", r.progress),
            _ => continue,
        };
        // PDUs logged at earlier instants were certainly created before; up to two more may have
        // been created (channel + transport in hand) but not yet logged
        let k_lo = firsts.iter().filter(|f| f.1 < i.vt).count();
        let k_hi = (firsts.iter().filter(|f| f.1 <= i.vt).count() + 2).min(firsts.len());
        let val_at = |k: usize| if k == 0 { 0 } else { firsts[k - 1].2 };
        let cands: Vec<u64> = (k_lo..=k_hi).map(val_at).collect();
        if !cands.contains(&val) {
            out.push(vv(
                "C20",
                "sender_progress_not_highest_offset_sent",
                format!("{}/{}", what, if val > *cands.iter().max().unwrap_or(&0) { "over" } else { "under" }),
                format!("txn {:?}: sender {} at seq {} reports progress {}, the highest file offset transmitted so far is one of {:?}", t.key, what, i.seq, val, cands),
            ));
        }
        if val > size {
            out.push(v("C20", "sender_progress_exceeds_file_size", format!("txn {:?}: sender {} at seq {} reports {} for a {}-byte file", t.key, what, i.seq, val, size)));
        }
        if val < last {
            out.push(v("C20", "sender_progress_decreased", format!("txn {:?}: sender {} at seq {} reports {}, earlier {}", t.key, what, i.seq, val, last)));
        }
        last = last.max(val);
    }
}

fn probes(a: &Analysis, out: &mut Vec<&'static str>) {
    common_probes(a, out);
    for t in a.txns.values() {
        for s in &t.at_dst.sent {
            if s.kind == Kind::Ka {
                out.push("keepalive_pdu_observed");
            }
        }
        for i in &t.at_src.inds {
            match &i.ind {
                Indication::Fault(_) => out.push("sender_fault_progress_observed"),
                Indication::Abandon(_) => out.push("sender_abandon_progress_observed"),
                Indication::Resumed(_) => out.push("sender_resumed_progress_observed"),
                _ => {}
            }
        }
        for i in &t.at_dst.inds {
            match &i.ind {
                Indication::Fault(_) => out.push("receiver_fault_progress_observed"),
                Indication::Abandon(_) => out.push("receiver_abandon_progress_observed"),
                Indication::Resumed(_) => out.push("receiver_resumed_progress_observed"),
                _ => {}
            }
        }
    }
    out.sort();
    out.dedup();
}

pub fn check() -> Check {
    Check {
        prop: "C20",
        level: "exploration",
        rule: "one run = (configuration, file up to 30 segments, script) from VERIF_SEED: two real daemons, link serialisation 1 ms per PDU in 3/4 of the runs, wild loss/dup/delay in 2/3, and 1..5 of {Prompt(KeepAlive), Prompt(NAK), suspend+resume at either side after 0..2 s, blackout of a direction (permanent or healing)} triggered after a seeded PDU index, abandon handlers on limit conditions in 1/3; every KeepAlive PDU and every Fault/Abandon/Resumed indication is an observation; non-trivial = a fault fired or a user operation landed; distinct = distinct history fingerprint",
        assumptions: vec![
            "receiver: the value must equal the number of distinct bytes in some admissible prefix of what its transport pulled (prefix consistency, DESIGN 4); only the first incarnation of a receive transaction is judged",
            "sender: the value must equal the running maximum of offset+length over first-pass file data PDUs at a point between 'logged at an earlier instant' and 'two PDUs beyond those logged by the instant of the indication' (one PDU may sit in the transport channel and one in the transport task)",
        ],
        oracle: Box::new(c20),
        cross: Box::new(safety_cross),
        probes: Box::new(probes),
        build,
        admissible: Box::new(domain_basic),
        real: REAL_SIM.to_vec(),
        stub: STUB_SIM.to_vec(),
    }
}
