//! A scenario = configuration + workload + script. It is the replay file: running a scenario
//! never consults the PRNG. Text (de)serialisation is line oriented.

use std::fmt::Write as _;

#[derive(Clone, Copy, Debug, PartialEq, Eq, Hash, PartialOrd, Ord)]
pub enum Kind {
    Md,
    Fd,
    Eof,
    AckEof,
    AckFin,
    Nak,
    Fin,
    Prompt,
    Ka,
    Bad,
}
impl Kind {
    pub const ALL: [Kind; 10] = [
        Kind::Md,
        Kind::Fd,
        Kind::Eof,
        Kind::AckEof,
        Kind::AckFin,
        Kind::Nak,
        Kind::Fin,
        Kind::Prompt,
        Kind::Ka,
        Kind::Bad,
    ];
    pub fn name(self) -> &'static str {
        match self {
            Kind::Md => "md",
            Kind::Fd => "fd",
            Kind::Eof => "eof",
            Kind::AckEof => "ackeof",
            Kind::AckFin => "ackfin",
            Kind::Nak => "nak",
            Kind::Fin => "fin",
            Kind::Prompt => "prompt",
            Kind::Ka => "ka",
            Kind::Bad => "bad",
        }
    }
    pub fn parse(s: &str) -> Option<Kind> {
        Kind::ALL.iter().copied().find(|k| k.name() == s)
    }
    pub fn idx(self) -> usize {
        Kind::ALL.iter().position(|k| *k == self).unwrap()
    }
}

#[derive(Clone, Copy, Debug, PartialEq, Eq, Hash, PartialOrd, Ord)]
pub enum IndKind {
    Transaction,
    EofSent,
    EofRecv,
    Finished,
    MdRecv,
    SegRecv,
    Suspended,
    Resumed,
    Report,
    Fault,
    Abandon,
}
impl IndKind {
    pub const ALL: [IndKind; 11] = [
        IndKind::Transaction,
        IndKind::EofSent,
        IndKind::EofRecv,
        IndKind::Finished,
        IndKind::MdRecv,
        IndKind::SegRecv,
        IndKind::Suspended,
        IndKind::Resumed,
        IndKind::Report,
        IndKind::Fault,
        IndKind::Abandon,
    ];
    pub fn name(self) -> &'static str {
        match self {
            IndKind::Transaction => "transaction",
            IndKind::EofSent => "eofsent",
            IndKind::EofRecv => "eofrecv",
            IndKind::Finished => "finished",
            IndKind::MdRecv => "mdrecv",
            IndKind::SegRecv => "segrecv",
            IndKind::Suspended => "suspended",
            IndKind::Resumed => "resumed",
            IndKind::Report => "report",
            IndKind::Fault => "fault",
            IndKind::Abandon => "abandon",
        }
    }
    pub fn parse(s: &str) -> Option<IndKind> {
        IndKind::ALL.iter().copied().find(|k| k.name() == s)
    }
}

#[derive(Clone, Debug, PartialEq, Eq, Hash)]
pub enum Trigger {
    /// virtual microseconds since start of run
    At(u64),
    /// right after the n-th (0-based) datagram src->dst was handed to the link
    AfterPdu { src: usize, dst: usize, n: u32 },
    /// right after the k-th (0-based) datagram of this kind src->dst was handed to the link
    AfterKind { src: usize, dst: usize, kind: Kind, k: u32 },
    /// right after the k-th indication of this kind reached the user of `ent`
    AfterInd { ent: usize, kind: IndKind, k: u32 },
    /// `us` microseconds after another trigger
    Plus(Box<Trigger>, u64),
    Never,
}

impl Trigger {
    pub fn text(&self) -> String {
        match self {
            Trigger::At(t) => format!("at:{}", t),
            Trigger::AfterPdu { src, dst, n } => format!("pdu:{}>{}:{}", src, dst, n),
            Trigger::AfterKind { src, dst, kind, k } => {
                format!("kind:{}>{}:{}:{}", src, dst, kind.name(), k)
            }
            Trigger::AfterInd { ent, kind, k } => format!("ind:{}:{}:{}", ent, kind.name(), k),
            Trigger::Plus(t, us) => format!("{}+{}", t.text(), us),
            Trigger::Never => "never".to_string(),
        }
    }
    pub fn parse(s: &str) -> Result<Trigger, String> {
        if let Some((base, plus)) = s.rsplit_once('+') {
            let us = plus.parse::<u64>().map_err(|e| format!("{s}: {e}"))?;
            return Ok(Trigger::Plus(Box::new(Trigger::parse(base)?), us));
        }
        let parts: Vec<&str> = s.split(':').collect();
        let bad = || format!("bad trigger {s}");
        match parts[0] {
            "never" => Ok(Trigger::Never),
            "at" => Ok(Trigger::At(parts.get(1).ok_or_else(bad)?.parse().map_err(|_| bad())?)),
            "pdu" => {
                let (a, b) = parse_dir(parts.get(1).ok_or_else(bad)?)?;
                Ok(Trigger::AfterPdu {
                    src: a,
                    dst: b,
                    n: parts.get(2).ok_or_else(bad)?.parse().map_err(|_| bad())?,
                })
            }
            "kind" => {
                let (a, b) = parse_dir(parts.get(1).ok_or_else(bad)?)?;
                Ok(Trigger::AfterKind {
                    src: a,
                    dst: b,
                    kind: Kind::parse(parts.get(2).ok_or_else(bad)?).ok_or_else(bad)?,
                    k: parts.get(3).ok_or_else(bad)?.parse().map_err(|_| bad())?,
                })
            }
            "ind" => Ok(Trigger::AfterInd {
                ent: parts.get(1).ok_or_else(bad)?.parse().map_err(|_| bad())?,
                kind: IndKind::parse(parts.get(2).ok_or_else(bad)?).ok_or_else(bad)?,
                k: parts.get(3).ok_or_else(bad)?.parse().map_err(|_| bad())?,
            }),
            _ => Err(bad()),
        }
    }
}

fn parse_dir(s: &str) -> Result<(usize, usize), String> {
    let (a, b) = s.split_once('>').ok_or_else(|| format!("bad dir {s}"))?;
    Ok((
        a.parse().map_err(|_| format!("bad dir {s}"))?,
        b.parse().map_err(|_| format!("bad dir {s}"))?,
    ))
}

#[derive(Clone, Debug, PartialEq, Eq, Hash)]
pub enum Sel {
    Nth(u32),
    Kind(Kind, u32),
}

#[derive(Clone, Debug, PartialEq, Eq, Hash)]
pub enum Act {
    Drop,
    /// n extra copies, each gap_us later than the previous
    Dup { n: u32, gap_us: u64 },
    /// hold this datagram us longer (later ones overtake it)
    Delay { us: u64 },
    /// flip these bit positions (bit 0 = msb of octet 0)
    Flip { bits: Vec<u32> },
    /// keep only the first len octets
    Trunc { len: u32 },
}

#[derive(Clone, Copy, Debug, PartialEq, Eq, Hash)]
pub enum UserOp {
    Cancel,
    Suspend,
    Resume,
    PromptNak,
    PromptKa,
    Report,
}
impl UserOp {
    pub fn name(self) -> &'static str {
        match self {
            UserOp::Cancel => "cancel",
            UserOp::Suspend => "suspend",
            UserOp::Resume => "resume",
            UserOp::PromptNak => "promptnak",
            UserOp::PromptKa => "promptka",
            UserOp::Report => "report",
        }
    }
    pub fn parse(s: &str) -> Option<UserOp> {
        [
            UserOp::Cancel,
            UserOp::Suspend,
            UserOp::Resume,
            UserOp::PromptNak,
            UserOp::PromptKa,
            UserOp::Report,
        ]
        .into_iter()
        .find(|o| o.name() == s)
    }
}

#[derive(Clone, Debug, PartialEq, Eq, Hash)]
pub enum What {
    /// a copy of the n-th datagram that was handed to the link src->dst
    Copy { src: usize, dst: usize, n: u32 },
    /// a copy of the k-th datagram of a kind src->dst
    CopyKind { src: usize, dst: usize, kind: Kind, k: u32 },
    /// raw octets
    Raw(Vec<u8>),
    /// a metadata PDU built when it is injected, so that names may contain the placeholders
    /// `{ROOT}` / `{ROOTX}` (the filestore root of the addressed entity / its sibling directory)
    Meta { seq: u64, unack: bool, closure: bool, null: bool, size: u64, src_name: String, dst_name: String, reqs: Vec<Req> },
}

/// user operations on a transaction that has no Put in the scenario (scripted sender): put = RAW_TXN + sequence number
pub const RAW_TXN: usize = 1_000_000;

#[derive(Clone, Debug, PartialEq, Eq, Hash)]
pub enum Entry {
    Fault { src: usize, dst: usize, sel: Sel, act: Act },
    Blackout { src: usize, dst: usize, from: Trigger, until: Trigger },
    User { ent: usize, op: UserOp, put: usize, at: Trigger },
    /// deliver `what` to entity dst (as if coming from src), delay_us after the trigger
    Inject { src: usize, dst: usize, what: What, at: Trigger, delay_us: u64 },
    /// the driver advances the clock by us at once
    ClockJump { at: Trigger, us: u64 },
    /// the entity's transport neither sends nor delivers for us
    Stall { ent: usize, at: Trigger, us: u64 },
    /// kill the daemon of ent (only its filestore survives)
    Crash { ent: usize, at: Trigger },
    /// start a fresh daemon for ent on the same filestore
    Restart { ent: usize, at: Trigger },
    /// filestore fault at ent: the nth call of op (open|tempfile|request) fails; op "full" hands out /dev/full as staging file
    FsFault { ent: usize, op: String, nth: u32 },
}

#[derive(Clone, Debug, PartialEq, Eq, Hash)]
pub enum Content {
    Rand,
    Zero,
    /// random with runs of zero octets (aligned and unaligned)
    ZeroRuns,
    /// 32-bit word pairs (w, -w): every aligned 8 octets sum to 0 mod 2^32
    Neutral,
    Text,
    Counter,
    /// 0xFF everywhere (overflows the modular sum)
    Ones,
    /// first `n` octets zero, the rest random
    ZeroHead(u64),
    /// last `n` octets zero, the rest random
    ZeroTail(u64),
}
impl Content {
    pub fn text(&self) -> String {
        match self {
            Content::Rand => "rand".into(),
            Content::Zero => "zero".into(),
            Content::ZeroRuns => "zeroruns".into(),
            Content::Neutral => "neutral".into(),
            Content::Text => "text".into(),
            Content::Counter => "counter".into(),
            Content::Ones => "ones".into(),
            Content::ZeroHead(n) => format!("zerohead{}", n),
            Content::ZeroTail(n) => format!("zerotail{}", n),
        }
    }
    pub fn parse(s: &str) -> Option<Content> {
        Some(match s {
            "rand" => Content::Rand,
            "zero" => Content::Zero,
            "zeroruns" => Content::ZeroRuns,
            "neutral" => Content::Neutral,
            "text" => Content::Text,
            "counter" => Content::Counter,
            "ones" => Content::Ones,
            _ => {
                if let Some(n) = s.strip_prefix("zerohead") {
                    Content::ZeroHead(n.parse().ok()?)
                } else if let Some(n) = s.strip_prefix("zerotail") {
                    Content::ZeroTail(n.parse().ok()?)
                } else {
                    return None;
                }
            }
        })
    }
}

#[derive(Clone, Debug, PartialEq, Eq, Hash)]
pub struct FileSpec {
    pub size: u64,
    pub class: Content,
    pub cseed: u64,
}

#[derive(Clone, Debug, PartialEq, Eq, Hash)]
pub struct Req {
    /// FileStoreAction code 0..8
    pub action: u8,
    pub first: String,
    pub second: String,
}

#[derive(Clone, Debug, PartialEq, Eq, Hash)]
pub struct Put {
    pub src: usize,
    pub dst: usize,
    pub unack: bool,
    pub src_name: String,
    pub dst_name: String,
    pub file: Option<FileSpec>,
    pub reqs: Vec<Req>,
    pub msgs: Vec<Vec<u8>>,
    pub at: Trigger,
}

/// a file or directory that exists in an entity's filestore before the run starts
#[derive(Clone, Debug, PartialEq, Eq, Hash)]
pub struct Pre {
    pub ent: usize,
    pub path: String,
    /// None = directory
    pub file: Option<FileSpec>,
}

#[derive(Clone, Debug, PartialEq, Eq, Hash)]
pub struct Ent {
    pub real: bool,
    pub seg: u16,
    pub limit: u32,
    pub t_inact: i64,
    pub t_ack: i64,
    pub t_nak: i64,
    pub crc: bool,
    pub closure: bool,
    pub null_cksum: bool,
    pub nak_immediate: bool,
    pub nak_delay_ms: u64,
    /// (condition code, action code) fault handler overrides
    pub handlers: Vec<(u8, u8)>,
    pub seq0: u64,
}
impl Default for Ent {
    fn default() -> Self {
        Ent {
            real: true,
            seg: 1024,
            limit: 2,
            t_inact: 3,
            t_ack: 1,
            t_nak: 2,
            crc: false,
            closure: false,
            null_cksum: false,
            nak_immediate: false,
            nak_delay_ms: 0,
            handlers: vec![],
            seq0: 0,
        }
    }
}

#[derive(Clone, Debug, PartialEq, Eq, Hash)]
pub struct Scenario {
    pub family: String,
    pub rt_seed: u64,
    pub idw: u8,
    pub lat_us: u64,
    pub ser_us: u64,
    pub ser_ns_byte: u64,
    pub ind_cap: usize,
    pub horizon_ms: u64,
    pub ents: Vec<Ent>,
    pub pre: Vec<Pre>,
    pub puts: Vec<Put>,
    pub script: Vec<Entry>,
}

impl Default for Scenario {
    fn default() -> Self {
        Scenario {
            family: "pair".into(),
            rt_seed: 1,
            idw: 2,
            lat_us: 1000,
            ser_us: 0,
            ser_ns_byte: 0,
            ind_cap: 4096,
            horizon_ms: 0,
            ents: vec![Ent::default(), Ent::default()],
            pre: vec![],
            puts: vec![],
            script: vec![],
        }
    }
}

pub fn hex(b: &[u8]) -> String {
    let mut s = String::with_capacity(b.len() * 2);
    for x in b {
        let _ = write!(s, "{:02x}", x);
    }
    if s.is_empty() {
        s.push('-');
    }
    s
}
pub fn unhex(s: &str) -> Result<Vec<u8>, String> {
    if s == "-" {
        return Ok(vec![]);
    }
    if s.len() % 2 != 0 {
        return Err(format!("odd hex {s}"));
    }
    (0..s.len())
        .step_by(2)
        .map(|i| u8::from_str_radix(&s[i..i + 2], 16).map_err(|e| format!("{s}: {e}")))
        .collect()
}

fn esc_name(s: &str) -> String {
    // names may contain anything; hex-encode
    format!("x{}", hex(s.as_bytes()))
}
fn unesc_name(s: &str) -> Result<String, String> {
    let h = s.strip_prefix('x').ok_or_else(|| format!("bad name {s}"))?;
    String::from_utf8(unhex(h)?).map_err(|e| e.to_string())
}

fn file_text(f: &Option<FileSpec>) -> String {
    match f {
        None => "none".into(),
        Some(f) => format!("{}:{}:{}", f.size, f.class.text(), f.cseed),
    }
}
fn file_parse(s: &str) -> Result<Option<FileSpec>, String> {
    if s == "none" {
        return Ok(None);
    }
    let p: Vec<&str> = s.split(':').collect();
    if p.len() != 3 {
        return Err(format!("bad file {s}"));
    }
    Ok(Some(FileSpec {
        size: p[0].parse().map_err(|_| format!("bad file {s}"))?,
        class: Content::parse(p[1]).ok_or_else(|| format!("bad content {s}"))?,
        cseed: p[2].parse().map_err(|_| format!("bad file {s}"))?,
    }))
}

impl Entry {
    pub fn text(&self) -> String {
        match self {
            Entry::Fault { src, dst, sel, act } => {
                let sel = match sel {
                    Sel::Nth(n) => format!("nth:{}", n),
                    Sel::Kind(k, n) => format!("kind:{}:{}", k.name(), n),
                };
                let act = match act {
                    Act::Drop => "drop".to_string(),
                    Act::Dup { n, gap_us } => format!("dup:{}:{}", n, gap_us),
                    Act::Delay { us } => format!("delay:{}", us),
                    Act::Flip { bits } => format!(
                        "flip:{}",
                        bits.iter().map(|b| b.to_string()).collect::<Vec<_>>().join(",")
                    ),
                    Act::Trunc { len } => format!("trunc:{}", len),
                };
                format!("fault dir={}>{} sel={} act={}", src, dst, sel, act)
            }
            Entry::Blackout { src, dst, from, until } => format!(
                "blackout dir={}>{} from={} until={}",
                src,
                dst,
                from.text(),
                until.text()
            ),
            Entry::User { ent, op, put, at } => {
                format!("user ent={} op={} put={} at={}", ent, op.name(), put, at.text())
            }
            Entry::Inject { src, dst, what, at, delay_us } => {
                let w = match what {
                    What::Copy { src, dst, n } => format!("copy:{}>{}:{}", src, dst, n),
                    What::CopyKind { src, dst, kind, k } => {
                        format!("copykind:{}>{}:{}:{}", src, dst, kind.name(), k)
                    }
                    What::Raw(b) => format!("raw:{}", hex(b)),
                    What::Meta { seq, unack, closure, null, size, src_name, dst_name, reqs } => format!(
                        "meta:{}:{}:{}:{}:{}:{}:{}:{}",
                        seq,
                        *unack as u8,
                        *closure as u8,
                        *null as u8,
                        size,
                        esc_name(src_name),
                        esc_name(dst_name),
                        if reqs.is_empty() {
                            "-".to_string()
                        } else {
                            reqs.iter().map(|r| format!("{}/{}/{}", r.action, esc_name(&r.first), esc_name(&r.second))).collect::<Vec<_>>().join(",")
                        }
                    ),
                };
                format!(
                    "inject dir={}>{} what={} at={} delay={}",
                    src,
                    dst,
                    w,
                    at.text(),
                    delay_us
                )
            }
            Entry::ClockJump { at, us } => format!("clockjump at={} us={}", at.text(), us),
            Entry::Stall { ent, at, us } => format!("stall ent={} at={} us={}", ent, at.text(), us),
            Entry::Crash { ent, at } => format!("crash ent={} at={}", ent, at.text()),
            Entry::Restart { ent, at } => format!("restart ent={} at={}", ent, at.text()),
            Entry::FsFault { ent, op, nth } => format!("fsfault ent={} op={} nth={}", ent, op, nth),
        }
    }

    pub fn parse(line: &str) -> Result<Entry, String> {
        let mut it = line.split_whitespace();
        let head = it.next().ok_or("empty entry")?;
        let kv: Vec<(&str, &str)> = it.filter_map(|t| t.split_once('=')).collect();
        let get = |k: &str| -> Result<&str, String> {
            kv.iter()
                .find(|(kk, _)| *kk == k)
                .map(|(_, v)| *v)
                .ok_or_else(|| format!("missing {k} in '{line}'"))
        };
        let num = |k: &str| -> Result<u64, String> {
            get(k)?.parse::<u64>().map_err(|_| format!("bad {k} in '{line}'"))
        };
        match head {
            "fault" => {
                let (src, dst) = parse_dir(get("dir")?)?;
                let s = get("sel")?;
                let sp: Vec<&str> = s.split(':').collect();
                let sel = match sp[0] {
                    "nth" => Sel::Nth(sp.get(1).and_then(|x| x.parse().ok()).ok_or("bad sel")?),
                    "kind" => Sel::Kind(
                        sp.get(1).and_then(|x| Kind::parse(x)).ok_or("bad sel kind")?,
                        sp.get(2).and_then(|x| x.parse().ok()).ok_or("bad sel")?,
                    ),
                    _ => return Err(format!("bad sel {s}")),
                };
                let a = get("act")?;
                let ap: Vec<&str> = a.split(':').collect();
                let act = match ap[0] {
                    "drop" => Act::Drop,
                    "dup" => Act::Dup {
                        n: ap.get(1).and_then(|x| x.parse().ok()).ok_or("bad dup")?,
                        gap_us: ap.get(2).and_then(|x| x.parse().ok()).ok_or("bad dup")?,
                    },
                    "delay" => Act::Delay {
                        us: ap.get(1).and_then(|x| x.parse().ok()).ok_or("bad delay")?,
                    },
                    "flip" => Act::Flip {
                        bits: ap
                            .get(1)
                            .ok_or("bad flip")?
                            .split(',')
                            .filter(|x| !x.is_empty())
                            .map(|x| x.parse::<u32>().map_err(|e| e.to_string()))
                            .collect::<Result<_, _>>()?,
                    },
                    "trunc" => Act::Trunc {
                        len: ap.get(1).and_then(|x| x.parse().ok()).ok_or("bad trunc")?,
                    },
                    _ => return Err(format!("bad act {a}")),
                };
                Ok(Entry::Fault { src, dst, sel, act })
            }
            "blackout" => {
                let (src, dst) = parse_dir(get("dir")?)?;
                Ok(Entry::Blackout {
                    src,
                    dst,
                    from: Trigger::parse(get("from")?)?,
                    until: Trigger::parse(get("until")?)?,
                })
            }
            "user" => Ok(Entry::User {
                ent: num("ent")? as usize,
                op: UserOp::parse(get("op")?).ok_or("bad op")?,
                put: num("put")? as usize,
                at: Trigger::parse(get("at")?)?,
            }),
            "inject" => {
                let (src, dst) = parse_dir(get("dir")?)?;
                let w = get("what")?;
                let wp: Vec<&str> = w.split(':').collect();
                let what = match wp[0] {
                    "copy" => {
                        let (a, b) = parse_dir(wp.get(1).ok_or("bad copy")?)?;
                        What::Copy {
                            src: a,
                            dst: b,
                            n: wp.get(2).and_then(|x| x.parse().ok()).ok_or("bad copy")?,
                        }
                    }
                    "copykind" => {
                        let (a, b) = parse_dir(wp.get(1).ok_or("bad copykind")?)?;
                        What::CopyKind {
                            src: a,
                            dst: b,
                            kind: wp.get(2).and_then(|x| Kind::parse(x)).ok_or("bad copykind")?,
                            k: wp.get(3).and_then(|x| x.parse().ok()).ok_or("bad copykind")?,
                        }
                    }
                    "raw" => What::Raw(unhex(wp.get(1).ok_or("bad raw")?)?),
                    "meta" => {
                        if wp.len() != 9 {
                            return Err(format!("bad meta {w}"));
                        }
                        let n = |i: usize| wp[i].parse::<u64>().map_err(|_| format!("bad meta {w}"));
                        What::Meta {
                            seq: n(1)?,
                            unack: n(2)? != 0,
                            closure: n(3)? != 0,
                            null: n(4)? != 0,
                            size: n(5)?,
                            src_name: unesc_name(wp[6])?,
                            dst_name: unesc_name(wp[7])?,
                            reqs: if wp[8] == "-" {
                                vec![]
                            } else {
                                wp[8]
                                    .split(',')
                                    .map(|x| {
                                        let p: Vec<&str> = x.split('/').collect();
                                        if p.len() != 3 {
                                            return Err(format!("bad req {x}"));
                                        }
                                        Ok(Req { action: p[0].parse().map_err(|_| format!("bad req {x}"))?, first: unesc_name(p[1])?, second: unesc_name(p[2])? })
                                    })
                                    .collect::<Result<Vec<_>, String>>()?
                            },
                        }
                    }
                    _ => return Err(format!("bad what {w}")),
                };
                Ok(Entry::Inject {
                    src,
                    dst,
                    what,
                    at: Trigger::parse(get("at")?)?,
                    delay_us: num("delay")?,
                })
            }
            "clockjump" => Ok(Entry::ClockJump { at: Trigger::parse(get("at")?)?, us: num("us")? }),
            "stall" => Ok(Entry::Stall {
                ent: num("ent")? as usize,
                at: Trigger::parse(get("at")?)?,
                us: num("us")?,
            }),
            "crash" => Ok(Entry::Crash { ent: num("ent")? as usize, at: Trigger::parse(get("at")?)? }),
            "restart" => {
                Ok(Entry::Restart { ent: num("ent")? as usize, at: Trigger::parse(get("at")?)? })
            }
            "fsfault" => Ok(Entry::FsFault {
                ent: num("ent")? as usize,
                op: get("op")?.to_string(),
                nth: num("nth")? as u32,
            }),
            _ => Err(format!("unknown entry '{line}'")),
        }
    }
}

impl Scenario {
    pub fn to_text(&self) -> String {
        let mut s = String::new();
        let _ = writeln!(s, "# cfdp-verif replay v1");
        let _ = writeln!(
            s,
            "scenario family={} rt_seed={} idw={} lat_us={} ser_us={} ser_ns_byte={} ind_cap={} horizon_ms={}",
            self.family,
            self.rt_seed,
            self.idw,
            self.lat_us,
            self.ser_us,
            self.ser_ns_byte,
            self.ind_cap,
            self.horizon_ms
        );
        for e in &self.ents {
            let h = if e.handlers.is_empty() {
                "-".to_string()
            } else {
                e.handlers
                    .iter()
                    .map(|(c, a)| format!("{}:{}", c, a))
                    .collect::<Vec<_>>()
                    .join(",")
            };
            let _ = writeln!(
                s,
                "ent real={} seg={} limit={} t_inact={} t_ack={} t_nak={} crc={} closure={} null={} nak_imm={} nak_delay_ms={} handlers={} seq0={}",
                e.real as u8,
                e.seg,
                e.limit,
                e.t_inact,
                e.t_ack,
                e.t_nak,
                e.crc as u8,
                e.closure as u8,
                e.null_cksum as u8,
                e.nak_immediate as u8,
                e.nak_delay_ms,
                h,
                e.seq0
            );
        }
        for p in &self.pre {
            let _ = writeln!(
                s,
                "pre ent={} path={} file={}",
                p.ent,
                esc_name(&p.path),
                match &p.file {
                    None => "dir".to_string(),
                    f => file_text(f),
                }
            );
        }
        for p in &self.puts {
            let reqs = if p.reqs.is_empty() {
                "-".to_string()
            } else {
                p.reqs
                    .iter()
                    .map(|r| format!("{}/{}/{}", r.action, esc_name(&r.first), esc_name(&r.second)))
                    .collect::<Vec<_>>()
                    .join(",")
            };
            let msgs = if p.msgs.is_empty() {
                "-".to_string()
            } else {
                p.msgs.iter().map(|m| format!("m{}", hex(m))).collect::<Vec<_>>().join(",")
            };
            let _ = writeln!(
                s,
                "put dir={}>{} unack={} src={} dst={} file={} reqs={} msgs={} at={}",
                p.src,
                p.dst,
                p.unack as u8,
                esc_name(&p.src_name),
                esc_name(&p.dst_name),
                file_text(&p.file),
                reqs,
                msgs,
                p.at.text()
            );
        }
        for e in &self.script {
            let _ = writeln!(s, "{}", e.text());
        }
        s
    }

    pub fn from_text(text: &str) -> Result<Scenario, String> {
        let mut sc = Scenario { ents: vec![], ..Scenario::default() };
        for line in text.lines() {
            let line = line.trim();
            if line.is_empty() || line.starts_with('#') {
                continue;
            }
            let mut it = line.split_whitespace();
            let head = it.next().unwrap();
            let kv: Vec<(&str, &str)> = it.filter_map(|t| t.split_once('=')).collect();
            let get = |k: &str| -> Result<&str, String> {
                kv.iter()
                    .find(|(kk, _)| *kk == k)
                    .map(|(_, v)| *v)
                    .ok_or_else(|| format!("missing {k} in '{line}'"))
            };
            let num = |k: &str| -> Result<u64, String> {
                get(k)?.parse::<u64>().map_err(|_| format!("bad {k} in '{line}'"))
            };
            match head {
                "scenario" => {
                    sc.family = get("family")?.to_string();
                    sc.rt_seed = num("rt_seed")?;
                    sc.idw = num("idw")? as u8;
                    sc.lat_us = num("lat_us")?;
                    sc.ser_us = num("ser_us")?;
                    sc.ser_ns_byte = num("ser_ns_byte")?;
                    sc.ind_cap = num("ind_cap")? as usize;
                    sc.horizon_ms = num("horizon_ms")?;
                }
                "ent" => {
                    let h = get("handlers")?;
                    let handlers = if h == "-" {
                        vec![]
                    } else {
                        h.split(',')
                            .map(|x| {
                                let (c, a) = x.split_once(':').ok_or("bad handler")?;
                                Ok((
                                    c.parse::<u8>().map_err(|_| "bad handler")?,
                                    a.parse::<u8>().map_err(|_| "bad handler")?,
                                ))
                            })
                            .collect::<Result<Vec<_>, &str>>()?
                    };
                    sc.ents.push(Ent {
                        real: num("real")? != 0,
                        seg: num("seg")? as u16,
                        limit: num("limit")? as u32,
                        t_inact: num("t_inact")? as i64,
                        t_ack: num("t_ack")? as i64,
                        t_nak: num("t_nak")? as i64,
                        crc: num("crc")? != 0,
                        closure: num("closure")? != 0,
                        null_cksum: num("null")? != 0,
                        nak_immediate: num("nak_imm")? != 0,
                        nak_delay_ms: num("nak_delay_ms")?,
                        handlers,
                        seq0: num("seq0")?,
                    });
                }
                "pre" => {
                    let f = get("file")?;
                    sc.pre.push(Pre {
                        ent: num("ent")? as usize,
                        path: unesc_name(get("path")?)?,
                        file: if f == "dir" { None } else { file_parse(f)? },
                    });
                }
                "put" => {
                    let (src, dst) = parse_dir(get("dir")?)?;
                    let r = get("reqs")?;
                    let reqs = if r == "-" {
                        vec![]
                    } else {
                        r.split(',')
                            .map(|x| {
                                let p: Vec<&str> = x.split('/').collect();
                                if p.len() != 3 {
                                    return Err(format!("bad req {x}"));
                                }
                                Ok(Req {
                                    action: p[0].parse().map_err(|_| format!("bad req {x}"))?,
                                    first: unesc_name(p[1])?,
                                    second: unesc_name(p[2])?,
                                })
                            })
                            .collect::<Result<Vec<_>, String>>()?
                    };
                    let m = get("msgs")?;
                    let msgs = if m == "-" {
                        vec![]
                    } else {
                        m.split(',')
                            .map(|x| unhex(x.strip_prefix('m').unwrap_or(x)))
                            .collect::<Result<Vec<_>, String>>()?
                    };
                    sc.puts.push(Put {
                        src,
                        dst,
                        unack: num("unack")? != 0,
                        src_name: unesc_name(get("src")?)?,
                        dst_name: unesc_name(get("dst")?)?,
                        file: file_parse(get("file")?)?,
                        reqs,
                        msgs,
                        at: Trigger::parse(get("at")?)?,
                    });
                }
                _ => sc.script.push(Entry::parse(line)?),
            }
        }
        if sc.ents.is_empty() {
            return Err("no entities".into());
        }
        Ok(sc)
    }
}
