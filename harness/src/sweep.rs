//! Systematic placements over a learned fault-free exchange.

use crate::gen::Profile;
use crate::scenario::*;

/// every PDU index of both directions, plus the first retransmitted instance of each kind
pub fn sites(prof: &Profile, a: usize, b: usize, with_retx: bool) -> Vec<(usize, usize, Sel)> {
    let mut sites: Vec<(usize, usize, Sel)> = vec![];
    for n in 0..prof.fwd.len() as u32 {
        sites.push((a, b, Sel::Nth(n)));
    }
    for n in 0..prof.rev.len() as u32 {
        sites.push((b, a, Sel::Nth(n)));
    }
    if with_retx {
        for kd in [Kind::Eof, Kind::Md, Kind::Fd] {
            sites.push((a, b, Sel::Kind(kd, prof.fwd.iter().filter(|x| **x == kd).count() as u32)));
        }
        for kd in [Kind::Fin, Kind::Nak, Kind::AckEof] {
            sites.push((b, a, Sel::Kind(kd, prof.rev.iter().filter(|x| **x == kd).count() as u32)));
        }
    }
    sites
}

/// all single placements and (optionally) all pairs of `acts` over `sites`; `ok` filters
/// combinations (e.g. loss budget)
pub fn placements(
    base: &Scenario,
    sites: &[(usize, usize, Sel)],
    acts: &[Act],
    pairs: bool,
    ok: &dyn Fn(&[&Act]) -> bool,
) -> Vec<Scenario> {
    let mut out = vec![];
    for (s, d, sel) in sites {
        for act in acts {
            if !ok(&[act]) {
                continue;
            }
            let mut x = base.clone();
            x.script.push(Entry::Fault { src: *s, dst: *d, sel: sel.clone(), act: act.clone() });
            out.push(x);
        }
    }
    if pairs {
        for i in 0..sites.len() {
            for j in (i + 1)..sites.len() {
                for a1 in acts {
                    for a2 in acts {
                        if !ok(&[a1, a2]) {
                            continue;
                        }
                        let mut x = base.clone();
                        x.script.push(Entry::Fault { src: sites[i].0, dst: sites[i].1, sel: sites[i].2.clone(), act: a1.clone() });
                        x.script.push(Entry::Fault { src: sites[j].0, dst: sites[j].1, sel: sites[j].2.clone(), act: a2.clone() });
                        out.push(x);
                    }
                }
            }
        }
    }
    out
}

/// every trigger point of the exchange: before anything, and after every PDU of either direction
pub fn points(prof: &Profile, a: usize, b: usize) -> Vec<Trigger> {
    let mut v = vec![Trigger::At(0)];
    for n in 0..prof.fwd.len() as u32 {
        v.push(Trigger::AfterPdu { src: a, dst: b, n });
    }
    for n in 0..prof.rev.len() as u32 {
        v.push(Trigger::AfterPdu { src: b, dst: a, n });
    }
    v
}
