//! Scenario generation: swarm configuration, workloads, fault scripts, systematic placements.
//! Everything here is a pure function of the PRNG handed in.

use camino::Utf8PathBuf;

use crate::{
    prng::Rng,
    scenario::*,
    world::{self, EvKind, RunOpts},
};

pub const SEGS: [u16; 9] = [24, 25, 31, 32, 64, 100, 1000, 1024, 4096];

#[derive(Clone, Debug)]
pub struct Knobs {
    /// None = draw
    pub unack: Option<bool>,
    pub closure: Option<bool>,
    pub crc: Option<bool>,
    pub null_cksum: Option<bool>,
    pub max_segments: u64,
    pub max_bytes: u64,
    /// allow a serialisation time > 0 on the link
    pub ser: bool,
    /// keep timeouts inside the C02 envelope relations (inactivity >= ack, nak of both)
    pub envelope: bool,
    pub limit_min: u32,
    pub limit_max: u32,
    pub seg_choices: Vec<u16>,
    pub handlers: bool,
    /// sometimes a (stale) file already exists under the destination name
    pub stale_dest: bool,
}
impl Default for Knobs {
    fn default() -> Self {
        Knobs {
            unack: None,
            closure: None,
            crc: None,
            null_cksum: None,
            max_segments: 12,
            max_bytes: 16 * 1024,
            ser: true,
            envelope: true,
            limit_min: 1,
            limit_max: 4,
            seg_choices: SEGS.to_vec(),
            handlers: false,
            stale_dest: true,
        }
    }
}

pub fn draw_size(rng: &mut Rng, seg: u64, max_segments: u64, max_bytes: u64) -> u64 {
    let k = rng.range(2, max_segments.max(2));
    let cands = [
        0,
        1,
        seg - 1,
        seg,
        seg + 1,
        2 * seg,
        2 * seg + 1,
        3 * seg - 1,
        3 * seg,
        3 * seg + 1,
        k * seg,
        k * seg - 1,
        k * seg + 1,
        k * seg + seg / 2,
        rng.range(0, max_segments * seg),
    ];
    let s = *rng.pick(&cands);
    s.min(max_bytes).min(max_segments * seg + 1)
}

pub fn draw_content(rng: &mut Rng, seg: u64) -> Content {
    match rng.below(12) {
        0 | 1 | 2 => Content::Rand,
        3 => Content::Zero,
        4 => Content::ZeroRuns,
        5 | 6 => Content::Neutral,
        7 => Content::Text,
        8 => Content::Counter,
        9 => Content::Ones,
        10 => Content::ZeroHead(*rng.pick(&[seg, seg + 3, 2 * seg, 4, 1])),
        _ => Content::ZeroTail(*rng.pick(&[seg, seg + 3, 2 * seg, 4, 1])),
    }
}

/// two real entities with a swarm-drawn configuration; no puts, no script
pub fn pair_cfg(rng: &mut Rng, k: &Knobs) -> Scenario {
    let mut sc = Scenario::default();
    sc.family = "pair".into();
    sc.rt_seed = rng.next_u64();
    sc.idw = *rng.pick(&[1u8, 2, 2, 4, 8]);
    sc.lat_us = *rng.pick(&[100u64, 1000, 1000, 5000, 20_000]);
    if k.ser && rng.chance(1, 2) {
        sc.ser_us = *rng.pick(&[1u64, 10, 100, 500]);
        sc.ser_ns_byte = *rng.pick(&[0u64, 0, 100, 1000]);
    }
    let seg = *rng.pick(&k.seg_choices);
    let crc = k.crc.unwrap_or_else(|| rng.chance(1, 3));
    let closure = k.closure.unwrap_or_else(|| rng.chance(1, 2));
    let null = k.null_cksum.unwrap_or_else(|| rng.chance(1, 5));
    let nak_imm = rng.chance(1, 2);
    let mut ents = vec![];
    for _ in 0..2 {
        let mut e = Ent::default();
        e.seg = seg;
        e.crc = crc;
        e.closure = closure;
        e.null_cksum = null;
        e.limit = rng.range(k.limit_min as u64, k.limit_max as u64) as u32;
        e.t_ack = rng.range(1, 5) as i64;
        e.t_nak = rng.range(1, 5) as i64;
        e.t_inact = rng.range(1, 8) as i64;
        e.nak_immediate = nak_imm;
        e.nak_delay_ms = *rng.pick(&[0u64, 0, 1, 50, 400]);
        e.seq0 = *rng.pick(&[0u64, 0, 1, 7, 100]);
        ents.push(e);
    }
    if k.envelope {
        let m = ents.iter().map(|e| e.t_ack.max(e.t_nak)).max().unwrap();
        for e in ents.iter_mut() {
            if e.t_inact < m {
                e.t_inact = m + (e.t_inact % 3);
            }
        }
    }
    // sequence numbers must fit the id width
    if sc.idw == 1 {
        for e in ents.iter_mut() {
            e.seq0 = e.seq0.min(100);
        }
    }
    sc.ents = ents;
    sc
}

pub fn add_file_put(sc: &mut Scenario, rng: &mut Rng, k: &Knobs, src: usize, dst: usize, idx: usize) {
    let seg = sc.ents[src].seg as u64;
    let size = draw_size(rng, seg, k.max_segments, k.max_bytes);
    let unack = k.unack.unwrap_or_else(|| rng.chance(1, 3));
    if k.stale_dest && rng.chance(1, 4) {
        // an older, different file under the destination name (longer, shorter, empty)
        let stale = *rng.pick(&[size + 1, size + seg, 2 * size + 7, size / 2, 0, size.saturating_sub(1), 3 * seg]);
        sc.pre.push(Pre {
            ent: dst,
            path: format!("dst{}_{}_{}.bin", src, dst, idx),
            file: Some(FileSpec { size: stale, class: Content::Text, cseed: rng.next_u64() }),
        });
    }
    sc.puts.push(Put {
        src,
        dst,
        unack,
        src_name: format!("src{}_{}.bin", src, idx),
        dst_name: format!("dst{}_{}_{}.bin", src, dst, idx),
        file: Some(FileSpec { size, class: draw_content(rng, seg), cseed: rng.next_u64() }),
        reqs: vec![],
        msgs: vec![],
        at: Trigger::At(0),
    });
}

/// the PDU kinds of the fault-free exchange, per direction, learned by running it
#[derive(Clone, Debug, Default)]
pub struct Profile {
    pub fwd: Vec<Kind>,
    pub rev: Vec<Kind>,
    pub end_us: u64,
}

pub fn profile(sc: &Scenario, root: &Utf8PathBuf, a: usize, b: usize) -> Profile {
    let mut clean = sc.clone();
    clean.script.clear();
    profile_keep_script(&clean, root, a, b)
}

/// like `profile`, but the scenario's script stays in force (exchange as it runs under these faults)
pub fn profile_keep_script(sc: &Scenario, root: &Utf8PathBuf, a: usize, b: usize) -> Profile {
    let clean = sc;
    let rec = world::run(clean, root, &RunOpts { sample_puts: false, ..RunOpts::default() });
    let mut p = Profile { end_us: rec.end_vt, ..Default::default() };
    for e in &rec.events {
        if let EvKind::Send { src, dst, kind, injected: false, .. } = &e.k {
            if *src == a && *dst == b {
                p.fwd.push(*kind);
            } else if *src == b && *dst == a {
                p.rev.push(*kind);
            }
        }
    }
    p
}

/// minimum over every timeout of both entities, microseconds
pub fn min_timeout_us(sc: &Scenario) -> u64 {
    sc.ents.iter().map(|e| e.t_ack.min(e.t_nak).min(e.t_inact)).min().unwrap_or(1).max(1) as u64 * 1_000_000
}
pub fn min_limit(sc: &Scenario) -> u32 {
    sc.ents.iter().map(|e| e.limit).min().unwrap_or(1)
}

pub fn benign_action(rng: &mut Rng, sc: &Scenario) -> Act {
    let t4 = min_timeout_us(sc) / 4;
    let lat = sc.lat_us;
    if rng.chance(1, 2) {
        Act::Dup { n: rng.range(1, 2) as u32, gap_us: *rng.pick(&[0, lat, lat * 3, t4 / 2]) }
    } else {
        Act::Delay { us: (*rng.pick(&[1, lat / 2 + 1, lat, lat * 3, t4 / 2, t4])).min(t4) }
    }
}

/// a random script inside the C02 envelope: fewer than `limit` loss-equivalent faults in total,
/// any number of benign dup/delay
pub fn admissible_script(rng: &mut Rng, sc: &Scenario, prof: &Profile, a: usize, b: usize) -> Vec<Entry> {
    let mut out = vec![];
    let limit = min_limit(sc);
    let losses = if limit <= 1 { 0 } else { rng.range(0, (limit - 1) as u64) };
    let nf = prof.fwd.len() as u32 + 6;
    let nr = prof.rev.len() as u32 + 6;
    let crc = sc.ents[a].crc;
    for _ in 0..losses {
        let (s, d, n) = if rng.chance(2, 3) { (a, b, rng.below(nf as u64) as u32) } else { (b, a, rng.below(nr as u64) as u32) };
        let sel = if rng.chance(1, 4) {
            let kinds: &[Kind] = if s == a { &[Kind::Md, Kind::Fd, Kind::Eof, Kind::AckFin] } else { &[Kind::AckEof, Kind::Nak, Kind::Fin] };
            Sel::Kind(*rng.pick(kinds), rng.below(3) as u32)
        } else {
            Sel::Nth(n)
        };
        let act = if crc && rng.chance(1, 3) {
            if rng.chance(1, 2) {
                Act::Flip { bits: vec![32 + rng.below(64) as u32] }
            } else {
                Act::Trunc { len: 4 + rng.below(12) as u32 }
            }
        } else {
            Act::Drop
        };
        out.push(Entry::Fault { src: s, dst: d, sel, act });
    }
    let benign = rng.below(5);
    for _ in 0..benign {
        let (s, d, n) = if rng.chance(2, 3) { (a, b, rng.below(nf as u64) as u32) } else { (b, a, rng.below(nr as u64) as u32) };
        // do not stack a benign action on a lossy selector (selector identity is enough)
        let sel = Sel::Nth(n);
        if out.iter().any(|e| matches!(e, Entry::Fault { src, dst, sel: s2, .. } if *src == s && *dst == d && *s2 == sel)) {
            continue;
        }
        out.push(Entry::Fault { src: s, dst: d, sel, act: benign_action(rng, sc) });
    }
    out
}

/// unbounded random link faults (C01/C03): drops, dups, delays, corruption when CRC is on
pub fn wild_script(rng: &mut Rng, sc: &Scenario, prof: &Profile, a: usize, b: usize) -> Vec<Entry> {
    let mut out = vec![];
    let nf = prof.fwd.len() as u32 + 10;
    let nr = prof.rev.len() as u32 + 10;
    let crc = sc.ents[a].crc;
    let n = rng.range(1, 8);
    for _ in 0..n {
        let (s, d, idx) = if rng.chance(2, 3) { (a, b, rng.below(nf as u64) as u32) } else { (b, a, rng.below(nr as u64) as u32) };
        let act = match rng.below(10) {
            0..=4 => Act::Drop,
            5 | 6 => Act::Dup { n: rng.range(1, 3) as u32, gap_us: *rng.pick(&[0, sc.lat_us, 500_000, 2_000_000]) },
            7 | 8 => Act::Delay { us: *rng.pick(&[1, sc.lat_us * 2, 300_000, 1_500_000, 4_000_000]) },
            _ => {
                if crc {
                    Act::Flip { bits: vec![32 + rng.below(200) as u32] }
                } else {
                    Act::Drop
                }
            }
        };
        out.push(Entry::Fault { src: s, dst: d, sel: Sel::Nth(idx), act });
    }
    out
}
