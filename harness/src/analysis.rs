//! Views over a recorded history shared by the oracles.

use std::collections::BTreeMap;
use std::sync::Arc;

use cfdp_core::{
    daemon::{FinishedIndication, Indication},
    pdu::{
        Condition, DeliveryCode, Direction, FileDataPDU, FileStatusCode, Operations, PDUPayload,
        PDU,
    },
    transaction::TransactionState,
};

use crate::scenario::Kind;
use crate::world::{ind_txn, kind_of, Ev, EvKind, Fate, RunRecord, TxnKey};

#[derive(Clone, Debug)]
pub struct Violation {
    pub prop: &'static str,
    pub clause: &'static str,
    pub detail: String,
    /// short class of the observed value (part of the signature), may be empty
    pub value: String,
}

pub fn pdu_key(p: &PDU) -> TxnKey {
    (p.header.source_entity_id.to_u64(), p.header.transaction_sequence_number.to_u64())
}

pub fn is_to_receiver(p: &PDU) -> bool {
    p.header.direction == Direction::ToReceiver
}

pub fn fd_range(p: &PDU) -> Option<(u64, u64, &[u8])> {
    match &p.payload {
        PDUPayload::FileData(FileDataPDU::Unsegmented(d)) => {
            Some((d.offset, d.offset + d.file_data.len() as u64, d.file_data.as_slice()))
        }
        PDUPayload::FileData(FileDataPDU::Segmented(d)) => {
            Some((d.offset, d.offset + d.file_data.len() as u64, d.file_data.as_slice()))
        }
        _ => None,
    }
}

pub fn op_of(p: &PDU) -> Option<&Operations> {
    match &p.payload {
        PDUPayload::Directive(op) => Some(op),
        _ => None,
    }
}

/// A PDU emitted onto the link (by a real entity or injected)
#[derive(Clone, Debug)]
pub struct SendRef {
    pub seq: u64,
    pub vt: u64,
    pub src: usize,
    pub dst: usize,
    pub n: u32,
    pub kind: Kind,
    pub pdu: Option<Arc<PDU>>,
    pub bytes: Arc<Vec<u8>>,
    pub fate: Fate,
    pub injected: bool,
}

#[derive(Clone, Debug)]
pub struct RecvRef {
    pub seq: u64,
    pub vt: u64,
    pub dst: usize,
    pub src: usize,
    pub send_seq: u64,
    pub pdu: Option<Arc<PDU>>,
    pub bytes: Arc<Vec<u8>>,
}

#[derive(Clone, Debug)]
pub struct IndRef {
    pub seq: u64,
    pub vt: u64,
    pub ent: usize,
    pub ind: Indication,
}

/// everything about one transaction id as seen at one entity
#[derive(Clone, Debug, Default)]
pub struct Side {
    /// PDUs this entity emitted for the transaction (not injected)
    pub sent: Vec<SendRef>,
    /// PDUs its transport pulled for the transaction (decoded ok)
    pub recvd: Vec<RecvRef>,
    pub inds: Vec<IndRef>,
    /// virtual time of the final Report(Terminated) indication
    pub end_vt: Option<u64>,
    pub end_seq: Option<u64>,
    /// probe at end of run: Some(true) alive, Some(false) ended, None not probed
    pub alive_at_end: Option<bool>,
    pub probe_timed_out: bool,
    /// the entity ever reported this transaction (it existed there)
    pub existed: bool,
    /// number of Report(Active, first) indications = incarnations
    pub incarnations: u32,
}

impl Side {
    pub fn finished(&self) -> Vec<(&IndRef, &FinishedIndication)> {
        self.inds
            .iter()
            .filter_map(|i| match &i.ind {
                Indication::Finished(f) => Some((i, f)),
                _ => None,
            })
            .collect()
    }
    pub fn first_finished(&self) -> Option<(&IndRef, &FinishedIndication)> {
        self.finished().into_iter().next()
    }
    pub fn ended(&self) -> bool {
        self.end_vt.is_some() || self.alive_at_end == Some(false)
    }
}

pub fn is_success(f: &FinishedIndication) -> bool {
    f.report.condition == Condition::NoError
        && f.delivery_code == DeliveryCode::Complete
        && f.file_status == FileStatusCode::Retained
}

#[derive(Clone, Debug)]
pub struct Txn {
    pub key: TxnKey,
    pub put: Option<usize>,
    pub src_ent: usize,
    pub dst_ent: Option<usize>,
    pub at_src: Side,
    pub at_dst: Side,
}

pub struct Analysis<'a> {
    pub rec: &'a RunRecord,
    pub sends: Vec<SendRef>,
    pub recvs: Vec<RecvRef>,
    pub inds: Vec<IndRef>,
    pub txns: BTreeMap<TxnKey, Txn>,
}

impl<'a> Analysis<'a> {
    pub fn new(rec: &'a RunRecord) -> Self {
        let mut sends = vec![];
        let mut recvs = vec![];
        let mut inds = vec![];
        for e in &rec.events {
            match &e.k {
                EvKind::Send { src, dst, n, kind, pdu, bytes, fate, injected, .. } => {
                    sends.push(SendRef {
                        seq: e.seq,
                        vt: e.vt,
                        src: *src,
                        dst: *dst,
                        n: *n,
                        kind: *kind,
                        pdu: pdu.clone(),
                        bytes: bytes.clone(),
                        fate: fate.clone(),
                        injected: *injected,
                    })
                }
                EvKind::Recv { dst, src, send_seq, pdu, bytes } => recvs.push(RecvRef {
                    seq: e.seq,
                    vt: e.vt,
                    dst: *dst,
                    src: *src,
                    send_seq: *send_seq,
                    pdu: pdu.clone(),
                    bytes: bytes.clone(),
                }),
                EvKind::Ind { ent, ind } => {
                    inds.push(IndRef { seq: e.seq, vt: e.vt, ent: *ent, ind: ind.clone() })
                }
                _ => {}
            }
        }
        let nent = rec.sc.ents.len();
        let ent_of = |v: u64| -> Option<usize> {
            if v >= 1 && (v as usize) <= nent {
                Some(v as usize - 1)
            } else {
                None
            }
        };
        let mut txns: BTreeMap<TxnKey, Txn> = BTreeMap::new();
        // transactions from puts
        for (pi, p) in rec.puts.iter().enumerate() {
            if !p.issued {
                continue;
            }
            let key = p.actual.unwrap_or(p.predicted);
            txns.entry(key).or_insert_with(|| Txn {
                key,
                put: Some(pi),
                src_ent: rec.sc.puts[pi].src,
                dst_ent: Some(rec.sc.puts[pi].dst),
                at_src: Side::default(),
                at_dst: Side::default(),
            });
        }
        let mut get = |txns: &mut BTreeMap<TxnKey, Txn>, key: TxnKey, dst_hint: Option<usize>| {
            if !txns.contains_key(&key) {
                if let Some(se) = ent_of(key.0) {
                    txns.insert(
                        key,
                        Txn {
                            key,
                            put: None,
                            src_ent: se,
                            dst_ent: dst_hint,
                            at_src: Side::default(),
                            at_dst: Side::default(),
                        },
                    );
                }
            }
        };
        for s in &sends {
            if s.injected {
                continue;
            }
            if let Some(p) = &s.pdu {
                let key = pdu_key(p);
                let dst_hint = ent_of(p.header.destination_entity_id.to_u64());
                get(&mut txns, key, dst_hint);
                if let Some(t) = txns.get_mut(&key) {
                    if t.dst_ent.is_none() {
                        t.dst_ent = dst_hint;
                    }
                    if s.src == t.src_ent && is_to_receiver(p) {
                        t.at_src.sent.push(s.clone());
                    } else if Some(s.src) == t.dst_ent && !is_to_receiver(p) {
                        t.at_dst.sent.push(s.clone());
                    }
                }
            }
        }
        for r in &recvs {
            if let Some(p) = &r.pdu {
                let key = pdu_key(p);
                let dst_hint = ent_of(p.header.destination_entity_id.to_u64());
                get(&mut txns, key, dst_hint);
                if let Some(t) = txns.get_mut(&key) {
                    if is_to_receiver(p) {
                        if Some(r.dst) == t.dst_ent {
                            t.at_dst.recvd.push(r.clone());
                        }
                    } else if r.dst == t.src_ent {
                        t.at_src.recvd.push(r.clone());
                    }
                }
            }
        }
        for i in &inds {
            let key = ind_txn(&i.ind);
            get(&mut txns, key, None);
            if let Some(t) = txns.get_mut(&key) {
                let side = if i.ent == t.src_ent {
                    &mut t.at_src
                } else {
                    if t.dst_ent.is_none() {
                        t.dst_ent = Some(i.ent);
                    }
                    if Some(i.ent) == t.dst_ent {
                        &mut t.at_dst
                    } else {
                        continue;
                    }
                };
                side.existed = true;
                if let Indication::Report(r) = &i.ind {
                    if r.state == TransactionState::Terminated {
                        side.end_vt = Some(i.vt);
                        side.end_seq = Some(i.seq);
                    } else if side.end_vt.is_some() || side.incarnations == 0 {
                        // a fresh incarnation (first report, or a report after a terminated one)
                        if side.end_vt.is_some() {
                            side.end_vt = None;
                            side.end_seq = None;
                        }
                        side.incarnations += 1;
                    }
                }
                side.inds.push(i.clone());
            }
        }
        for pr in &rec.probes {
            if let Some(t) = txns.get_mut(&pr.key) {
                let side = if pr.ent == t.src_ent {
                    &mut t.at_src
                } else if Some(pr.ent) == t.dst_ent {
                    &mut t.at_dst
                } else {
                    continue;
                };
                side.alive_at_end = Some(pr.report.is_some());
                side.probe_timed_out = pr.timed_out;
            }
        }
        Analysis { rec, sends, recvs, inds, txns }
    }

    pub fn put_txn(&self, put: usize) -> Option<&Txn> {
        self.txns.values().find(|t| t.put == Some(put))
    }

    /// destination file samples of a put: (seq, vt, digest)
    pub fn samples(&self, put: usize) -> Vec<(u64, u64, Option<(u64, u64)>)> {
        self.rec
            .events
            .iter()
            .filter_map(|e| match &e.k {
                EvKind::Sample { put: p, digest } if *p == put => Some((e.seq, e.vt, *digest)),
                _ => None,
            })
            .collect()
    }

    pub fn final_file(&self, ent: usize, name: &str) -> Option<&Vec<u8>> {
        let name = name.trim_start_matches('/');
        self.rec.fs_final.get(ent)?.iter().find(|(p, _)| p == name).and_then(|(_, c)| c.as_ref())
    }
}

/// fingerprint of a history: sequence of (direction, kind, offset class, fate) + user ops
pub fn fingerprint(rec: &RunRecord) -> (u64, bool) {
    let mut h: u64 = 0xcbf2_9ce4_8422_2325;
    let mut nontrivial = false;
    // hostile-name scenarios differ by the names they carry, not by the shape of the exchange
    for p in &rec.sc.puts {
        for r in &p.reqs {
            nontrivial = true;
            h = crate::prng::fnv_add(h, &[r.action]);
            h = crate::prng::fnv_add(h, r.first.as_bytes());
            h = crate::prng::fnv_add(h, r.second.as_bytes());
        }
        if p.src_name.contains("..") || p.src_name.contains('{') || p.src_name.starts_with('/') {
            nontrivial = true;
            h = crate::prng::fnv_add(h, p.src_name.as_bytes());
        }
    }
    for e in &rec.sc.script {
        if let crate::scenario::Entry::Inject { what: crate::scenario::What::Meta { dst_name, reqs, .. }, .. } = e {
            h = crate::prng::fnv_add(h, dst_name.as_bytes());
            for r in reqs {
                h = crate::prng::fnv_add(h, &[r.action]);
                h = crate::prng::fnv_add(h, r.first.as_bytes());
                h = crate::prng::fnv_add(h, r.second.as_bytes());
            }
        }
    }
    for e in &rec.events {
        match &e.k {
            EvKind::Send { src, dst, kind, pdu, fate, injected, .. } => {
                let off = pdu.as_ref().and_then(|p| fd_range(p)).map(|r| r.0).unwrap_or(0);
                let f = match fate {
                    Fate::Pass { extra_us, copies } => {
                        if *extra_us > 0 || *copies > 1 {
                            nontrivial = true;
                        }
                        (*copies as u8) | if *extra_us > 0 { 0x40 } else { 0 }
                    }
                    Fate::Dropped => {
                        nontrivial = true;
                        0x81
                    }
                    Fate::Blackout => {
                        nontrivial = true;
                        0x82
                    }
                    Fate::Damaged => {
                        nontrivial = true;
                        0x83
                    }
                    Fate::NoRoute => 0x84,
                };
                if *injected {
                    nontrivial = true;
                }
                let b = [*src as u8, *dst as u8, kind.idx() as u8, f, *injected as u8];
                h = crate::prng::fnv_add(h, &b);
                h = crate::prng::fnv_add(h, &off.to_le_bytes());
            }
            EvKind::User { ent, op, accepted, .. } => {
                nontrivial = true;
                h = crate::prng::fnv_add(h, &[0xF0, *ent as u8, *op as u8, *accepted as u8]);
            }
            EvKind::ClockJump { .. } => {
                nontrivial = true;
                h = crate::prng::fnv_add(h, &[0xF1]);
            }
            EvKind::Crash { ent } => {
                nontrivial = true;
                h = crate::prng::fnv_add(h, &[0xF3, *ent as u8]);
            }
            EvKind::Restart { ent } => {
                nontrivial = true;
                h = crate::prng::fnv_add(h, &[0xF4, *ent as u8]);
            }
            EvKind::Fs { op: crate::world::FsOp::Open { injected: true, .. }, .. } => {
                nontrivial = true;
                h = crate::prng::fnv_add(h, &[0xF2]);
            }
            EvKind::Ind { ent, ind } => {
                h = crate::prng::fnv_add(h, &[0xF3, *ent as u8, crate::world::ind_kind(ind) as u8]);
            }
            _ => {}
        }
    }
    let _ = kind_of;
    (h, nontrivial)
}

/// Human readable rendering of a history (for triage and evidence samples)
pub fn render(rec: &RunRecord, max_lines: usize) -> Vec<String> {
    let mut out = vec![];
    for e in &rec.events {
        if out.len() >= max_lines {
            out.push("...".into());
            break;
        }
        out.push(render_ev(e));
    }
    out
}

pub fn render_ev(e: &Ev) -> String {
    {
        let line = match &e.k {
            EvKind::Send { src, dst, n, kind, pdu, fate, injected, bytes, .. } => {
                let extra = pdu.as_ref().map(|p| describe(p)).unwrap_or_else(|| format!("{}B undecodable", bytes.len()));
                format!(
                    "{}>{} #{} {} {} {:?}{}",
                    src,
                    dst,
                    if *n == u32::MAX { "inj".to_string() } else { n.to_string() },
                    kind.name(),
                    extra,
                    fate,
                    if *injected { " INJECTED" } else { "" }
                )
            }
            EvKind::Recv { dst, src, send_seq, pdu, bytes } => format!(
                "  recv@{} from {} (send seq {}) {}",
                dst,
                src,
                send_seq,
                pdu.as_ref().map(|p| format!("{} {}", kind_of(p).name(), describe(p))).unwrap_or_else(|| format!("{}B DECODE-ERROR", bytes.len()))
            ),
            EvKind::PutIssued { put, ent, predicted } => format!("PUT #{} at {} -> id {:?}", put, ent, predicted),
            EvKind::PutId { put, id } => format!("put #{} id {:?}", put, id),
            EvKind::User { ent, op, put, accepted, .. } => {
                format!("USER@{} {} put#{} accepted={}", ent, op.name(), put, accepted)
            }
            EvKind::Ind { ent, ind } => format!("    ind@{} {}", ent, describe_ind(ind)),
            EvKind::Fs { ent, op } => format!("    fs@{} {}", ent, match op {
                crate::world::FsOp::Open { path, ok, injected } => format!("open {} ok={} injected={}", path, ok, injected),
                crate::world::FsOp::Tempfile { ok, full } => format!("tempfile ok={} full={}", ok, full),
                crate::world::FsOp::Request { req, resp } => format!("request {:?} {} {} -> {:?}", req.action_code, req.first_filename, req.second_filename, resp.action_and_status),
            }),
            EvKind::Sample { put, digest } => format!("    dest(put#{}) = {:?}", put, digest),
            EvKind::Blackout { src, dst, on } => format!("BLACKOUT {}>{} {}", src, dst, if *on { "on" } else { "off" }),
            EvKind::ClockJump { us } => format!("CLOCKJUMP {}us", us),
            EvKind::Crash { ent } => format!("CRASH entity {}", ent),
            EvKind::Restart { ent } => format!("RESTART entity {}", ent),
            EvKind::Panic { msg } => format!("PANIC {}", msg),
            EvKind::Note { msg } => format!("note {}", msg),
        };
        format!("{:5} t={:>10} {}", e.seq, e.vt, line)
    }
}

pub fn describe(p: &PDU) -> String {
    let k = pdu_key(p);
    let body = match &p.payload {
        PDUPayload::FileData(_) => {
            let r = fd_range(p).unwrap();
            format!("[{}..{})", r.0, r.1)
        }
        PDUPayload::Directive(op) => match op {
            Operations::EoF(e) => format!("cond={:?} size={} ck={:08x}", e.condition, e.file_size, e.checksum),
            Operations::Finished(f) => format!("cond={:?} {:?} {:?} resp={}", f.condition, f.delivery_code, f.file_status, f.filestore_response.len()),
            Operations::Ack(a) => format!("of={:?} cond={:?} st={:?}", a.directive, a.condition, a.transaction_status),
            Operations::Metadata(m) => format!("size={} {}->{} closure={} opts={}", m.file_size, m.source_filename, m.destination_filename, m.closure_requested, m.options.len()),
            Operations::Nak(n) => format!("scope={}..{} req={:?}", n.start_of_scope, n.end_of_scope, n.segment_requests.iter().map(|r| (r.start_offset, r.end_offset)).collect::<Vec<_>>()),
            Operations::Prompt(pr) => format!("{:?}", pr.nak_or_keep_alive),
            Operations::KeepAlive(k) => format!("progress={}", k.progress),
        },
    };
    format!("txn={}.{} {}", k.0, k.1, body)
}

pub fn describe_ind(i: &Indication) -> String {
    match i {
        Indication::Finished(f) => format!(
            "Finished {:?} cond={:?} {:?} {:?} resp={:?}",
            (f.id.0.to_u64(), f.id.1.to_u64()),
            f.report.condition,
            f.delivery_code,
            f.file_status,
            f.filestore_responses.iter().map(|r| r.action_and_status).collect::<Vec<_>>()
        ),
        Indication::Report(r) => format!("Report {:?} {:?} {:?} {:?}", (r.id.0.to_u64(), r.id.1.to_u64()), r.state, r.status, r.condition),
        Indication::Fault(f) => format!("Fault {:?} {:?} progress={}", (f.id.0.to_u64(), f.id.1.to_u64()), f.condition, f.progress),
        Indication::Abandon(f) => format!("Abandon {:?} {:?} progress={}", (f.id.0.to_u64(), f.id.1.to_u64()), f.condition, f.progress),
        Indication::Resumed(r) => format!("Resumed {:?} progress={}", (r.id.0.to_u64(), r.id.1.to_u64()), r.progress),
        Indication::Suspended(s) => format!("Suspended {:?} {:?}", (s.id.0.to_u64(), s.id.1.to_u64()), s.condition),
        Indication::FileSegmentRecv(s) => format!("SegRecv [{}..{})", s.offset, s.offset + s.length),
        Indication::MetadataRecv(m) => format!("MetadataRecv size={} {}", m.file_size, m.destination_filename),
        Indication::Transaction(id) => format!("Transaction {:?}", (id.0.to_u64(), id.1.to_u64())),
        Indication::EoFSent(id) => format!("EoFSent {:?}", (id.0.to_u64(), id.1.to_u64())),
        Indication::EoFRecv(id) => format!("EoFRecv {:?}", (id.0.to_u64(), id.1.to_u64())),
    }
}

/// the set of byte positions covered, as sorted disjoint intervals — the reference model for C09/C20
#[derive(Clone, Debug, Default, PartialEq, Eq)]
pub struct IntervalSet(pub Vec<(u64, u64)>);
impl IntervalSet {
    pub fn insert(&mut self, a: u64, b: u64) -> u64 {
        if a >= b {
            return 0;
        }
        let before = self.total();
        let mut v = std::mem::take(&mut self.0);
        v.push((a, b));
        v.sort();
        let mut out: Vec<(u64, u64)> = vec![];
        for (s, e) in v {
            if let Some(last) = out.last_mut() {
                if s <= last.1 {
                    if e > last.1 {
                        last.1 = e;
                    }
                    continue;
                }
            }
            out.push((s, e));
        }
        self.0 = out;
        self.total() - before
    }
    pub fn total(&self) -> u64 {
        self.0.iter().map(|(a, b)| b - a).sum()
    }
    pub fn covers(&self, a: u64, b: u64) -> bool {
        if a >= b {
            return true;
        }
        self.0.iter().any(|(s, e)| *s <= a && b <= *e)
    }
    /// maximal uncovered sub-ranges of [a, b)
    pub fn gaps(&self, a: u64, b: u64) -> Vec<(u64, u64)> {
        let mut out = vec![];
        let mut p = a;
        for (s, e) in &self.0 {
            if *e <= p {
                continue;
            }
            if *s >= b {
                break;
            }
            if *s > p {
                out.push((p, (*s).min(b)));
            }
            p = p.max(*e);
            if p >= b {
                break;
            }
        }
        if p < b {
            out.push((p, b));
        }
        out
    }
    pub fn max_end(&self) -> u64 {
        self.0.last().map(|x| x.1).unwrap_or(0)
    }
}
