//! File content generation (pure function of the FileSpec) and the independent CCSDS checksum model.

use crate::prng::Rng;
use crate::scenario::{Content, FileSpec};

pub fn gen(spec: &FileSpec) -> Vec<u8> {
    let n = spec.size as usize;
    let mut rng = Rng::new(spec.cseed ^ 0xC0FF_EE00_1234_5678);
    let mut v = vec![0u8; n];
    match &spec.class {
        Content::Rand => rng.fill(&mut v),
        Content::Zero => {}
        Content::Ones => v.iter_mut().for_each(|b| *b = 0xFF),
        Content::Counter => v.iter_mut().enumerate().for_each(|(i, b)| *b = (i % 251) as u8 + 1),
        Content::Text => {
            let words = [
                "the ", "quick ", "brown ", "fox ", "jumps ", "over ", "lazy ", "dog\n", "cfdp ",
                "segment ", "0123456789 ",
            ];
            let mut i = 0;
            while i < n {
                let w = words[rng.usize_below(words.len())].as_bytes();
                let k = w.len().min(n - i);
                v[i..i + k].copy_from_slice(&w[..k]);
                i += k;
            }
        }
        Content::ZeroRuns => {
            rng.fill(&mut v);
            // make bytes non-zero first so zero runs are attributable
            v.iter_mut().for_each(|b| {
                if *b == 0 {
                    *b = 0x5A
                }
            });
            if n > 0 {
                let runs = 1 + rng.usize_below(4);
                for _ in 0..runs {
                    let start = rng.usize_below(n);
                    let len = 1 + rng.usize_below(1 + n / 2);
                    let end = (start + len).min(n);
                    v[start..end].iter_mut().for_each(|b| *b = 0);
                }
            }
        }
        Content::Neutral => {
            // aligned 8 octet groups (w, -w)
            let mut i = 0;
            while i + 8 <= n {
                let w = (rng.next_u64() as u32) | 1;
                v[i..i + 4].copy_from_slice(&w.to_be_bytes());
                v[i + 4..i + 8].copy_from_slice(&(0u32.wrapping_sub(w)).to_be_bytes());
                i += 8;
            }
            // the tail stays zero
        }
        Content::ZeroHead(k) => {
            rng.fill(&mut v);
            v.iter_mut().for_each(|b| {
                if *b == 0 {
                    *b = 0x33
                }
            });
            let k = (*k as usize).min(n);
            v[..k].iter_mut().for_each(|b| *b = 0);
        }
        Content::ZeroTail(k) => {
            rng.fill(&mut v);
            v.iter_mut().for_each(|b| {
                if *b == 0 {
                    *b = 0x77
                }
            });
            let k = (*k as usize).min(n);
            v[n - k..].iter_mut().for_each(|b| *b = 0);
        }
    }
    v
}

/// CCSDS 727.0-B-5 modular checksum: wrapping sum of the big-endian 32 bit words of the
/// zero-padded content.
pub fn modular_checksum(data: &[u8]) -> u32 {
    let mut sum = 0u32;
    let mut i = 0;
    while i < data.len() {
        let mut w = [0u8; 4];
        let k = (data.len() - i).min(4);
        w[..k].copy_from_slice(&data[i..i + k]);
        sum = sum.wrapping_add(u32::from_be_bytes(w));
        i += 4;
    }
    sum
}
