//! Construction of PDUs for scripted (possibly non-conforming) peers.

use camino::Utf8PathBuf;
use cfdp_core::{
    filestore::ChecksumType,
    pdu::{
        ACKSubDirective, CRCFlag, Condition, DeliveryCode, Direction, EndOfFile, FileDataPDU,
        FileSizeFlag, FileStatusCode, FileStoreRequest, Finished, KeepAlivePDU, MetadataPDU,
        MetadataTLV, NakOrKeepAlive, NegativeAcknowledgmentPDU, Operations, PDUDirective,
        PDUEncode, PDUHeader, PDUPayload, PDUType, PositiveAcknowledgePDU, PromptPDU,
        SegmentRequestForm, SegmentationControl, SegmentedData, TransactionStatus,
        TransmissionMode, UnsegmentedFileData, PDU, U3,
    },
};

use crate::world::make_id;

#[derive(Clone, Debug)]
pub struct Hdr {
    pub idw: u8,
    pub src: u64,
    pub seq: u64,
    pub dst: u64,
    pub unack: bool,
    pub crc: bool,
    pub large: bool,
}

impl Hdr {
    pub fn fss(&self) -> FileSizeFlag {
        if self.large {
            FileSizeFlag::Large
        } else {
            FileSizeFlag::Small
        }
    }
    pub fn pdu(&self, to_receiver: bool, payload: PDUPayload) -> PDU {
        let len = payload.encoded_len(self.fss());
        PDU {
            header: PDUHeader {
                version: U3::One,
                pdu_type: match payload {
                    PDUPayload::FileData(_) => PDUType::FileData,
                    PDUPayload::Directive(_) => PDUType::FileDirective,
                },
                direction: if to_receiver { Direction::ToReceiver } else { Direction::ToSender },
                transmission_mode: if self.unack {
                    TransmissionMode::Unacknowledged
                } else {
                    TransmissionMode::Acknowledged
                },
                crc_flag: if self.crc { CRCFlag::Present } else { CRCFlag::NotPresent },
                large_file_flag: self.fss(),
                pdu_data_field_length: len,
                segmentation_control: SegmentationControl::NotPreserved,
                segment_metadata_flag: SegmentedData::NotPresent,
                source_entity_id: make_id(self.idw, self.src),
                transaction_sequence_number: make_id(self.idw, self.seq),
                destination_entity_id: make_id(self.idw, self.dst),
            },
            payload,
        }
    }
    pub fn bytes(&self, to_receiver: bool, payload: PDUPayload) -> Vec<u8> {
        self.pdu(to_receiver, payload).encode()
    }

    pub fn metadata(
        &self,
        size: u64,
        src_name: &str,
        dst_name: &str,
        closure: bool,
        null_cksum: bool,
        reqs: Vec<FileStoreRequest>,
    ) -> Vec<u8> {
        self.bytes(
            true,
            PDUPayload::Directive(Operations::Metadata(MetadataPDU {
                closure_requested: closure,
                checksum_type: if null_cksum { ChecksumType::Null } else { ChecksumType::Modular },
                file_size: size,
                source_filename: Utf8PathBuf::from(src_name),
                destination_filename: Utf8PathBuf::from(dst_name),
                options: reqs.into_iter().map(MetadataTLV::FileStoreRequest).collect(),
            })),
        )
    }
    pub fn filedata(&self, offset: u64, data: &[u8]) -> Vec<u8> {
        self.bytes(
            true,
            PDUPayload::FileData(FileDataPDU::Unsegmented(UnsegmentedFileData {
                offset,
                file_data: data.to_vec(),
            })),
        )
    }
    pub fn eof(&self, cond: Condition, checksum: u32, size: u64) -> Vec<u8> {
        self.bytes(
            true,
            PDUPayload::Directive(Operations::EoF(EndOfFile {
                condition: cond,
                checksum,
                file_size: size,
                fault_location: if cond == Condition::NoError { None } else { Some(make_id(self.idw, self.src)) },
            })),
        )
    }
    pub fn nak(&self, scope: (u64, u64), reqs: &[(u64, u64)]) -> Vec<u8> {
        self.bytes(
            false,
            PDUPayload::Directive(Operations::Nak(NegativeAcknowledgmentPDU {
                start_of_scope: scope.0,
                end_of_scope: scope.1,
                segment_requests: reqs
                    .iter()
                    .map(|(a, b)| SegmentRequestForm { start_offset: *a, end_offset: *b })
                    .collect(),
            })),
        )
    }
    pub fn ack_eof(&self, cond: Condition) -> Vec<u8> {
        self.bytes(
            false,
            PDUPayload::Directive(Operations::Ack(PositiveAcknowledgePDU {
                directive: PDUDirective::EoF,
                directive_subtype_code: ACKSubDirective::Other,
                condition: cond,
                transaction_status: TransactionStatus::Active,
            })),
        )
    }
    pub fn ack_fin(&self, cond: Condition) -> Vec<u8> {
        self.bytes(
            true,
            PDUPayload::Directive(Operations::Ack(PositiveAcknowledgePDU {
                directive: PDUDirective::Finished,
                directive_subtype_code: ACKSubDirective::Finished,
                condition: cond,
                transaction_status: TransactionStatus::Active,
            })),
        )
    }
    pub fn finished(&self, cond: Condition, dc: DeliveryCode, fs: FileStatusCode) -> Vec<u8> {
        self.bytes(
            false,
            PDUPayload::Directive(Operations::Finished(Finished {
                condition: cond,
                delivery_code: dc,
                file_status: fs,
                filestore_response: vec![],
                fault_location: if cond == Condition::NoError { None } else { Some(make_id(self.idw, self.dst)) },
            })),
        )
    }
    pub fn prompt(&self, keepalive: bool) -> Vec<u8> {
        self.bytes(
            true,
            PDUPayload::Directive(Operations::Prompt(PromptPDU {
                nak_or_keep_alive: if keepalive { NakOrKeepAlive::KeepAlive } else { NakOrKeepAlive::Nak },
            })),
        )
    }
    pub fn keepalive(&self, progress: u64) -> Vec<u8> {
        self.bytes(false, PDUPayload::Directive(Operations::KeepAlive(KeepAlivePDU { progress })))
    }
}
