//! Command line: run <prop> <tier>, replay <prop> <file>, selftest.

use std::{
    collections::BTreeMap,
    sync::Arc,
    time::{Duration, Instant},
};

use crate::{
    analysis::{self, Analysis, Violation},
    checks::{self, Check, Tier},
    json::J,
    minimise::{Minimiser, Target},
    runner::{self, Ctx, Found, Stats},
    scenario::*,
    world::{EvKind, RunRecord},
};

pub const DEFAULT_SEED: u64 = 20260922;

pub fn seed_from_env() -> u64 {
    std::env::var("VERIF_SEED").ok().and_then(|s| s.trim().parse::<u64>().ok()).unwrap_or(DEFAULT_SEED)
}

#[derive(Clone, Debug)]
pub struct Known {
    pub property: String,
    pub signature: String,
    pub status: String,
    pub what: String,
}

/// very small JSON-lines reader for known_findings.jsonl (flat objects with string values)
pub fn load_known(path: &str) -> Vec<Known> {
    let mut out = vec![];
    let Ok(text) = std::fs::read_to_string(path) else { return out };
    for line in text.lines() {
        let line = line.trim();
        if line.is_empty() || line.starts_with('#') {
            continue;
        }
        let get = |k: &str| -> String {
            let pat = format!("\"{}\"", k);
            if let Some(i) = line.find(&pat) {
                let rest = &line[i + pat.len()..];
                if let Some(c) = rest.find(':') {
                    let rest = rest[c + 1..].trim_start();
                    if let Some(r) = rest.strip_prefix('"') {
                        let mut s = String::new();
                        let mut esc = false;
                        for ch in r.chars() {
                            if esc {
                                s.push(ch);
                                esc = false;
                            } else if ch == '\\' {
                                esc = true;
                            } else if ch == '"' {
                                break;
                            } else {
                                s.push(ch);
                            }
                        }
                        return s;
                    }
                }
            }
            String::new()
        };
        out.push(Known { property: get("property"), signature: get("signature"), status: get("status"), what: get("what") });
    }
    out
}

pub fn signature(v: &Violation, sc: &Scenario, rec: &RunRecord) -> String {
    let put = sc.puts.first();
    let mode = match put {
        Some(p) if p.unack => {
            if sc.ents[p.src].closure {
                "unack+closure"
            } else {
                "unack"
            }
        }
        Some(_) => "ack",
        None => "noput",
    };
    let nak = match put {
        Some(p) => {
            let e = &sc.ents[p.dst];
            format!(
                "{}{}",
                if e.nak_immediate { "immediate" } else { "deferred" },
                if e.nak_delay_ms == 0 { "0" } else { "D" }
            )
        }
        None => "-".into(),
    };
    let size = match put.and_then(|p| p.file.as_ref().map(|f| (f.size, sc.ents[p.src].seg as u64))) {
        None => "nofile".to_string(),
        Some((0, _)) => "empty".to_string(),
        Some((s, seg)) if s <= seg => "single".to_string(),
        Some(_) => "multi".to_string(),
    };
    let mut items: Vec<String> = vec![];
    for e in &sc.script {
        match e {
            Entry::Fault { src, dst, sel, act } => {
                let kind = rec
                    .events
                    .iter()
                    .find_map(|ev| match &ev.k {
                        EvKind::Send { src: s, dst: d, n, kind, kn, injected: false, .. } if s == src && d == dst => match sel {
                            Sel::Nth(x) if x == n => Some(kind.name()),
                            Sel::Kind(k, x) if k == kind && x == kn => Some(kind.name()),
                            _ => None,
                        },
                        _ => None,
                    })
                    .unwrap_or("unmatched");
                let a = match act {
                    Act::Drop => "drop",
                    Act::Dup { .. } => "dup",
                    Act::Delay { .. } => "delay",
                    Act::Flip { .. } => "corrupt",
                    Act::Trunc { .. } => "truncate",
                };
                items.push(format!("{}({})", a, kind));
            }
            Entry::Blackout { src, dst, .. } => items.push(format!("blackout({}>{})", src, dst)),
            Entry::User { ent, op, .. } => items.push(format!("{}@{}", op.name(), ent)),
            Entry::Inject { what, .. } => items.push(match what {
                What::Copy { .. } | What::CopyKind { .. } => "replay".to_string(),
                What::Raw(_) | What::Meta { .. } => "inject".to_string(),
            }),
            Entry::ClockJump { .. } => items.push("clockjump".into()),
            Entry::Stall { ent, .. } => items.push(format!("stall@{}", ent)),
            Entry::Crash { ent, .. } => items.push(format!("crash@{}", ent)),
            Entry::Restart { ent, .. } => items.push(format!("restart@{}", ent)),
            Entry::FsFault { ent, op, .. } => items.push(format!("fs_{}@{}", op, ent)),
        }
    }
    items.sort();
    format!("{}/{}/{}/{}/{}/{{{}}}/{}", v.prop, v.clause, mode, nak, size, items.join(","), v.value)
}

pub struct Reported {
    pub signature: String,
    pub known: bool,
    pub replay_path: String,
    pub detail: String,
}

/// minimise, classify and write replay files for the violations of a batch
pub fn triage(ctx: &Ctx, check: &Check, found: Vec<Found>, known: &[Known], budget_each: usize, max_classes: usize) -> Vec<Reported> {
    // group by (clause, value): the pre-minimisation class
    let mut groups: BTreeMap<(String, String), Vec<Found>> = BTreeMap::new();
    for f in found {
        groups.entry((f.v.clause.to_string(), f.v.value.clone())).or_default().push(f);
    }
    let mut out: Vec<Reported> = vec![];
    let mut seen: std::collections::HashSet<String> = Default::default();
    for ((_clause, _value), fs) in groups.into_iter().take(max_classes) {
        // minimise up to 3 members of each class (they may minimise to different signatures)
        for f in fs.iter().take(3) {
            let mut m = Minimiser {
                admissible: check.admissible.as_ref(),
                ctx,
                oracle: check.oracle.as_ref(),
                target: Target { prop: f.v.prop, clause: f.v.clause },
                budget: budget_each,
                used: 0,
            };
            let min = m.run(&f.sc);
            let rec = runner::run_one(ctx, &min);
            let a = Analysis::new(&rec);
            let vs: Vec<Violation> = (check.oracle)(&a).into_iter().filter(|v| v.prop == f.v.prop && v.clause == f.v.clause).collect();
            let Some(v) = vs.first() else {
                eprintln!("HARNESS-ERROR: minimised scenario does not reproduce {}/{}", f.v.prop, f.v.clause);
                std::process::exit(2);
            };
            let sig = signature(v, &min, &rec);
            if !seen.insert(sig.clone()) {
                continue;
            }
            let h = crate::prng::fnv(sig.as_bytes());
            let path = format!("/verif/replays/{}-{:016x}.replay", check.prop, h);
            let mut text = String::new();
            text.push_str(&format!("# property {}\n# signature {}\n# violation {}\n", check.prop, sig, v.detail.replace('\n', " ")));
            text.push_str(&format!("# found by job '{}' index {} ; minimised with {} executions\n", f.job, f.index, m.used));
            text.push_str(&min.to_text());
            let _ = std::fs::create_dir_all("/verif/replays");
            let _ = std::fs::write(&path, text);
            let is_known = known.iter().any(|k| k.property == check.prop && k.status == "known" && k.signature == sig);
            out.push(Reported { signature: sig, known: is_known, replay_path: path, detail: v.detail.clone() });
        }
    }
    out
}

pub fn evidence_json(check: &Check, tier: Tier, seed: u64, st: &Stats, wall: f64, reported: &[Reported], exhaustive_note: &str) -> J {
    let mut cov = J::obj();
    cov.set("evaluations", J::i(st.runs));
    cov.set("distinct_nontrivial", J::i(st.fingerprints.len() as u64));
    cov.set("distinct_histories_total", J::i(st.all_fingerprints.len() as u64));
    cov.set("nontrivial_runs", J::i(st.nontrivial_runs));
    cov.set("rule", J::s(check.rule));
    let mut samples = vec![];
    if let Some(s) = &st.first {
        samples.push(J::s(s.clone()));
    }
    if let Some((_, s)) = &st.shortest {
        samples.push(J::s(s.clone()));
    }
    if let Some((_, s)) = &st.longest {
        samples.push(J::s(s.clone()));
    }
    cov.set("samples", J::Arr(samples));
    cov.set("exhaustive", J::Bool(false));
    cov.set("exhaustive_note", J::s(exhaustive_note));
    let mut jobs = vec![];
    for (l, n) in &st.per_job {
        let mut o = J::obj();
        o.set("job", J::s(l.clone()));
        o.set("runs", J::i(*n));
        jobs.push(o);
    }
    cov.set("jobs", J::Arr(jobs));
    cov.set("runs_per_hour", J::i(if wall > 0.0 { (st.runs as f64 / wall * 3600.0) as u64 } else { 0 }));
    cov.set("seeds_per_hour", J::i(if wall > 0.0 { (st.runs as f64 / wall * 3600.0) as u64 } else { 0 }));
    cov.set("simulated_seconds", J::i(st.sim_us / 1_000_000));
    cov.set("link_and_user_events", J::i(st.events));
    let mut fc = J::obj();
    for (k, n) in st.counts.pairs() {
        fc.set(k, J::i(n));
    }
    cov.set("faults_fired", fc);
    let mut pr = J::obj();
    for (k, n) in &st.probes {
        pr.set(k, J::i(*n));
    }
    cov.set("reach_probes_runs_hit", pr);
    let mut oc = J::obj();
    for (k, n) in &st.outcomes {
        oc.set(k, J::i(*n));
    }
    cov.set("outcome_tuples", oc);
    cov.set("components_real", J::strs(check.real.iter().copied()));
    cov.set("components_stub", J::strs(check.stub.iter().copied()));
    let mut cross = vec![];
    for (k, (n, d)) in &st.cross {
        let mut o = J::obj();
        o.set("property_clause", J::s(k.clone()));
        o.set("runs", J::i(*n));
        o.set("example", J::s(d.clone()));
        cross.push(o);
    }
    cov.set("cross_hits", J::Arr(cross));
    cov.set("known_findings_reobserved", J::strs(reported.iter().filter(|r| r.known).map(|r| r.signature.clone())));
    cov.set("violations_reported", J::strs(reported.iter().filter(|r| !r.known).map(|r| format!("{} replay={}", r.signature, r.replay_path))));
    cov.set("truncated_by_deadline", J::Bool(st.deadline_hit));
    cov.set("task_panics_observed", J::i(st.panics.len() as u64));
    cov.set("watchdog_trips_not_confirmed_in_a_fresh_process", J::i(crate::runner::FALSE_TRIPS.load(std::sync::atomic::Ordering::Relaxed)));

    let mut e = J::obj();
    e.set("property_id", J::s(check.prop));
    e.set("tier", J::s(match tier {
        Tier::Quick => "quick",
        Tier::Thorough => "thorough",
    }));
    e.set("seed", J::i(seed));
    e.set("level", J::s(check.level));
    e.set("coverage", cov);
    e.set("assumptions", J::strs(check.assumptions.iter().copied()));
    e.set("wall_s", J::Num(wall));
    e.set("violations", J::i(reported.iter().filter(|r| !r.known).count() as u64));
    e
}

pub fn workers_from_env() -> usize {
    std::env::var("VERIF_WORKERS").ok().and_then(|s| s.parse().ok()).unwrap_or_else(|| {
        std::thread::available_parallelism().map(|n| n.get()).unwrap_or(8).min(16)
    })
}

fn run_custom(c: crate::custom::Custom, tier: Tier) -> i32 {
    let seed = seed_from_env();
    println!("VERIF_SEED={} property={} tier={:?}", seed, c.prop, tier);
    let start = Instant::now();
    let mut out = (c.run)(tier, seed, workers_from_env());
    // regression: the replays of this property's repaired defects (a fixed entry suppresses nothing)
    let mut regress = 0u64;
    if let Ok(rd) = std::fs::read_dir("/verif/findings") {
        let mut files: Vec<_> = rd.filter_map(|e| e.ok()).map(|e| e.path()).collect();
        files.sort();
        for f in files {
            let name = f.file_name().map(|x| x.to_string_lossy().to_string()).unwrap_or_default();
            if !name.starts_with(c.prop) || !name.ends_with(".replay") {
                continue;
            }
            let Ok(t) = std::fs::read_to_string(&f) else { continue };
            match (c.replay)(&t) {
                Ok(vs) => {
                    regress += 1;
                    out.evaluations += 1;
                    for v in vs {
                        out.viol(v);
                    }
                }
                Err(e) => {
                    eprintln!("HARNESS-ERROR: cannot parse {}: {}", f.display(), e);
                    return 2;
                }
            }
        }
    }
    out.extra.push(("regression_replays_of_repaired_defects".into(), J::i(regress)));
    let wall = start.elapsed().as_secs_f64();
    if !out.harness_errors.is_empty() {
        for h in out.harness_errors.iter().take(5) {
            eprintln!("HARNESS-ERROR: {}", h);
        }
        return 2;
    }
    let known = load_known("/verif/known_findings.jsonl");
    // one report per signature
    let mut seen: std::collections::BTreeMap<String, &crate::custom::CViol> = Default::default();
    for v in &out.violations {
        seen.entry(v.signature.clone()).or_insert(v);
    }
    let mut reported: Vec<Reported> = vec![];
    for (sig, v) in seen.iter().take(12) {
        // the replay must reproduce in this process before it is reported
        match (c.replay)(&v.replay) {
            Ok(vs) if vs.iter().any(|x| x.signature == *sig) => {}
            Ok(_) => {
                eprintln!("HARNESS-ERROR: replay of {} does not reproduce", sig);
                return 2;
            }
            Err(e) => {
                eprintln!("HARNESS-ERROR: replay of {} cannot be parsed: {}", sig, e);
                return 2;
            }
        }
        let h = crate::prng::fnv(sig.as_bytes());
        let path = format!("/verif/replays/{}-{:016x}.replay", c.prop, h);
        let _ = std::fs::create_dir_all("/verif/replays");
        let text = format!("# property {}\n# signature {}\n# violation {}\n{}", c.prop, sig, v.detail.replace('\n', " "), v.replay);
        let _ = std::fs::write(&path, text);
        let is_known = known.iter().any(|k| k.property == c.prop && k.status == "known" && k.signature == *sig);
        reported.push(Reported { signature: sig.clone(), known: is_known, replay_path: path, detail: v.detail.clone() });
    }
    let mut cov = J::obj();
    cov.set("evaluations", J::i(out.evaluations));
    cov.set("distinct_nontrivial", J::i(out.distinct_nontrivial));
    cov.set("rule", J::s(c.rule));
    cov.set("samples", J::Arr(out.samples.iter().map(|s| J::s(s.clone())).collect()));
    cov.set("exhaustive", J::Bool(out.exhaustive));
    cov.set("exhaustive_note", J::s(out.exhaustive_note.clone()));
    cov.set("runs_per_hour", J::i(if wall > 0.0 { (out.evaluations as f64 / wall * 3600.0) as u64 } else { 0 }));
    cov.set("seeds_per_hour", J::i(if wall > 0.0 { (out.evaluations as f64 / wall * 3600.0) as u64 } else { 0 }));
    for (k, v) in &out.extra {
        cov.set(k, v.clone());
    }
    cov.set("components_real", J::strs(c.real.iter().copied()));
    cov.set("components_stub", J::strs(c.stub.iter().copied()));
    cov.set("known_findings_reobserved", J::strs(reported.iter().filter(|r| r.known).map(|r| r.signature.clone())));
    cov.set("violations_reported", J::strs(reported.iter().filter(|r| !r.known).map(|r| format!("{} replay={}", r.signature, r.replay_path))));
    let mut e = J::obj();
    e.set("property_id", J::s(c.prop));
    e.set("tier", J::s(match tier {
        Tier::Quick => "quick",
        Tier::Thorough => "thorough",
    }));
    e.set("seed", J::i(seed));
    e.set("level", J::s(c.level));
    e.set("coverage", cov);
    e.set("assumptions", J::strs(c.assumptions.iter().copied()));
    e.set("wall_s", J::Num(wall));
    e.set("violations", J::i(reported.iter().filter(|r| !r.known).count() as u64));
    let _ = std::fs::create_dir_all("/verif/evidence");
    std::fs::write(format!("/verif/evidence/{}.json", c.prop), e.render()).expect("write evidence");
    println!("{}: {} evaluations, {} distinct non-trivial, {} raw violations, {:.1}s wall", c.prop, out.evaluations, out.distinct_nontrivial, out.violations.len(), wall);
    let mut code = 0;
    for r in &reported {
        if r.known {
            println!("KNOWN-FINDING: property={} {} :: {}", c.prop, r.signature, r.detail);
        } else {
            println!("VIOLATION property={} replay={}", c.prop, r.replay_path);
            println!("  signature {}", r.signature);
            println!("  {}", r.detail);
            code = 1;
        }
    }
    let _ = std::fs::remove_dir_all(format!("/dev/shm/cfdp-verif/{}", std::process::id()));
    code
}

fn replay_custom(c: crate::custom::Custom, path: &str) -> i32 {
    let text = match std::fs::read_to_string(path) {
        Ok(t) => t,
        Err(e) => {
            eprintln!("cannot read {path}: {e}");
            return 2;
        }
    };
    let vs = match (c.replay)(&text) {
        Ok(v) => v,
        Err(e) => {
            eprintln!("cannot parse {path}: {e}");
            return 2;
        }
    };
    let known = load_known("/verif/known_findings.jsonl");
    let mut code = 0;
    for v in &vs {
        let is_known = known.iter().any(|k| k.property == c.prop && k.status == "known" && k.signature == v.signature);
        if is_known {
            println!("KNOWN-FINDING: property={} {} :: {}", c.prop, v.signature, v.detail);
        } else {
            println!("VIOLATION property={} replay={}", c.prop, path);
            println!("  signature {}", v.signature);
            println!("  {}", v.detail);
            code = 1;
        }
    }
    if vs.is_empty() {
        println!("no violation of {} in this replay", c.prop);
    }
    let _ = std::fs::remove_dir_all(format!("/dev/shm/cfdp-verif/{}", std::process::id()));
    code
}

pub fn cmd_run(prop: &str, tier: Tier) -> i32 {
    if let Some(c) = crate::custom::registry(prop) {
        return run_custom(c, tier);
    }
    let Some(check) = checks::registry(prop) else {
        eprintln!("unknown or unclaimed property {prop}");
        return 2;
    };
    let seed = seed_from_env();
    println!("VERIF_SEED={} property={} tier={:?}", seed, prop, tier);
    let workers = std::env::var("VERIF_WORKERS").ok().and_then(|s| s.parse().ok()).unwrap_or_else(|| {
        std::thread::available_parallelism().map(|n| n.get()).unwrap_or(8).min(16)
    });
    let mut ctx = Ctx::new(workers);
    let start = Instant::now();
    ctx.deadline = Some(
        start
            + Duration::from_secs(match tier {
                Tier::Quick => 240,
                Tier::Thorough => 3 * 3600,
            }),
    );
    let mut jobs = (check.build)(&ctx, tier, seed);
    // regression: every replay of a defect that was found and repaired is re-run under this
    // property's oracle (a fixed entry suppresses nothing)
    let mut regress: Vec<Scenario> = vec![];
    if let Ok(rd) = std::fs::read_dir("/verif/findings") {
        let mut files: Vec<_> = rd.filter_map(|e| e.ok()).map(|e| e.path()).collect();
        files.sort();
        for f in files {
            if f.extension().map(|x| x == "replay").unwrap_or(false) {
                if let Ok(t) = std::fs::read_to_string(&f) {
                    if !t.contains("# cfdp-verif replay v1") {
                        continue; // a wire / io / udp case, re-run by its own check
                    }
                    match Scenario::from_text(&t) {
                        Ok(sc) if (check.admissible)(&sc) => regress.push(sc),
                        Ok(_) => {}
                        Err(e) => {
                            eprintln!("HARNESS-ERROR: cannot parse {}: {}", f.display(), e);
                            return 2;
                        }
                    }
                }
            }
        }
    }
    if !regress.is_empty() {
        let r = Arc::new(regress);
        let n = r.len();
        jobs.insert(0, runner::Job { label: "regression: replays of repaired defects (findings/*.replay)".into(), n, gen: Box::new(move |i| r[i].clone()) });
    }
    let mut stats = Stats::default();
    let mut found: Vec<Found> = vec![];
    let prop_s: &'static str = check.prop;
    let hang: Arc<runner::HangHandler> = Arc::new(move |text: &str| {
        let path = format!("/verif/replays/{}-hang-{}.replay", prop_s, std::process::id());
        let _ = std::fs::create_dir_all("/verif/replays");
        let _ = std::fs::write(&path, format!("# a run exceeded the wall-clock watchdog (spin without touching a seam)\n{}", text));
        if prop_s == "C03" {
            println!("VIOLATION property=C03 replay={}", path);
            std::process::exit(1);
        } else {
            // judge what the run had recorded before it hung by this property's safety clauses: in a
            // fresh process (the replay command does exactly that)
            let out = std::env::current_exe().ok().and_then(|exe| std::process::Command::new(exe).arg("replay").arg(prop_s).arg(&path).output().ok());
            match out {
                Some(o) => {
                    print!("{}", String::from_utf8_lossy(&o.stdout));
                    eprint!("{}", String::from_utf8_lossy(&o.stderr));
                    std::process::exit(o.status.code().unwrap_or(2));
                }
                None => {
                    eprintln!("HARNESS-ERROR: a run hung (wall-clock watchdog); scenario written to {} — this is C03 territory", path);
                    std::process::exit(2);
                }
            }
        }
    });
    for job in &jobs {
        let t = Instant::now();
        let (st, f) = runner::run_job(&ctx, job, check.oracle.as_ref(), check.cross.as_ref(), check.probes.as_ref(), hang.clone());
        println!(
            "  job '{}': {} runs, {} violations, {:.1}s",
            job.label,
            st.runs,
            f.len(),
            t.elapsed().as_secs_f64()
        );
        stats.merge(st);
        found.extend(f);
    }
    if !stats.harness_errors.is_empty() {
        for h in stats.harness_errors.iter().take(5) {
            eprintln!("HARNESS-ERROR: {}", h);
        }
        ctx.cleanup();
        return 2;
    }
    let known = load_known("/verif/known_findings.jsonl");
    let n_found = found.len();
    let reported = triage(&ctx, &check, found, &known, 1500, 12);
    let wall = start.elapsed().as_secs_f64();
    let ev = evidence_json(&check, tier, seed, &stats, wall, &reported, "systematic placement jobs enumerate their stated finite script space completely; the seeded jobs sample");
    let _ = std::fs::create_dir_all("/verif/evidence");
    std::fs::write(format!("/verif/evidence/{}.json", check.prop), ev.render()).expect("write evidence");
    println!(
        "{}: {} runs, {} distinct non-trivial histories, {} raw violations, {:.1}s wall, {} simulated s",
        check.prop,
        stats.runs,
        stats.fingerprints.len(),
        n_found,
        wall,
        stats.sim_us / 1_000_000
    );
    let mut code = 0;
    for r in &reported {
        if r.known {
            println!("KNOWN-FINDING: property={} {} :: {}", check.prop, r.signature, r.detail);
        } else {
            println!("VIOLATION property={} replay={}", check.prop, r.replay_path);
            println!("  signature {}", r.signature);
            println!("  {}", r.detail);
            code = 1;
        }
    }
    ctx.cleanup();
    code
}

/// debugging aid: VERIF_LOG=1 prints the crates' own log lines during a replay
struct StderrLog;
impl log::Log for StderrLog {
    fn enabled(&self, _: &log::Metadata) -> bool {
        true
    }
    fn log(&self, r: &log::Record) {
        eprintln!("LOG {} {}: {}", r.level(), r.target(), r.args());
    }
    fn flush(&self) {}
}
static LOGGER: StderrLog = StderrLog;

pub fn cmd_replay(prop: &str, path: &str, trace: bool) -> i32 {
    if std::env::var("VERIF_LOG").is_ok() {
        let _ = log::set_logger(&LOGGER);
        log::set_max_level(log::LevelFilter::Debug);
    }
    if let Some(c) = crate::custom::registry(prop) {
        return replay_custom(c, path);
    }
    let Some(check) = checks::registry(prop) else {
        eprintln!("unknown or unclaimed property {prop}");
        return 2;
    };
    let text = match std::fs::read_to_string(path) {
        Ok(t) => t,
        Err(e) => {
            eprintln!("cannot read {path}: {e}");
            return 2;
        }
    };
    let sc = match Scenario::from_text(&text) {
        Ok(s) => s,
        Err(e) => {
            eprintln!("cannot parse {path}: {e}");
            return 2;
        }
    };
    let ctx = Ctx::new(1);
    let rec = match run_guarded(&sc) {
        Ok(r) => r,
        Err(partials) => {
            // the run does not return: a spin (C03). Under another property the history recorded up
            // to the hang is judged by that property's safety clauses.
            let mut code = 2;
            if check.prop == "C03" {
                println!("VIOLATION property=C03 replay={}", path);
                println!("  signature C03/spin/run_does_not_return");
                println!("  the run exceeded the wall-clock watchdog without touching a seam ({} events recorded)", partials.first().map(|r| r.events.len()).unwrap_or(0));
                code = 1;
            } else {
                let allowed = checks::safety_clauses(check.prop);
                for rec in &partials {
                    if trace {
                        for l in analysis::render(rec, 5000) {
                            println!("{}", l);
                        }
                    }
                    let a = Analysis::new(rec);
                    for v in (check.oracle)(&a).iter().filter(|v| allowed.contains(&v.clause)) {
                        println!("VIOLATION property={} replay={}", check.prop, path);
                        println!("  signature {} (judged on the history up to the point where the run stopped making progress)", signature(v, &sc, rec));
                        println!("  {}", v.detail);
                        code = 1;
                    }
                }
                if code == 2 {
                    eprintln!("HARNESS-ERROR: the run hangs (wall-clock watchdog) and the history up to the hang breaks no safety clause of {}; a hang is C03 territory: ./check C03 --replay {}", check.prop, path);
                }
            }
            ctx.cleanup();
            // the spinning thread cannot be stopped: leave with the process
            std::process::exit(code);
        }
    };
    if trace {
        for l in analysis::render(&rec, 5000) {
            println!("{}", l);
        }
        println!("probes: {:?}", rec.probes);
        println!("daemon_alive: {:?} end_vt={} horizon={} panics={:?}", rec.daemon_alive, rec.end_vt, rec.horizon_us, rec.panics);
    }
    let a = Analysis::new(&rec);
    let vs = (check.oracle)(&a);
    let known = load_known("/verif/known_findings.jsonl");
    let mut code = 0;
    for v in &vs {
        let sig = signature(v, &sc, &rec);
        let is_known = known.iter().any(|k| k.property == check.prop && k.status == "known" && k.signature == sig);
        if is_known {
            println!("KNOWN-FINDING: property={} {} :: {}", check.prop, sig, v.detail);
        } else {
            println!("VIOLATION property={} replay={}", check.prop, path);
            println!("  signature {}", sig);
            println!("  {}", v.detail);
            code = 1;
        }
    }
    if vs.is_empty() {
        println!("no violation of {} in this replay", check.prop);
    }
    ctx.cleanup();
    code
}

/// run one scenario on a thread of its own and give up waiting when it makes no progress for twice
/// the watchdog time (stalls of the whole process are not counted): Err = what the run had
/// recorded so far
fn run_guarded(sc: &Scenario) -> Result<crate::world::RunRecord, Vec<crate::world::RunRecord>> {
    let (tx, rx) = std::sync::mpsc::channel();
    let sc2 = sc.clone();
    std::thread::spawn(move || {
        let ctx = Ctx::new(1);
        let rec = runner::run_one(&ctx, &sc2);
        let _ = tx.send(rec);
    });
    let now_ms = || std::time::SystemTime::now().duration_since(std::time::UNIX_EPOCH).map(|d| d.as_millis() as u64).unwrap_or(0);
    let (mut waited, mut last) = (0u64, now_ms());
    loop {
        match rx.recv_timeout(std::time::Duration::from_millis(200)) {
            Ok(rec) => return Ok(rec),
            Err(std::sync::mpsc::RecvTimeoutError::Timeout) => {}
            Err(std::sync::mpsc::RecvTimeoutError::Disconnected) => return Err(vec![]),
        }
        let now = now_ms();
        let dt = now.saturating_sub(last);
        last = now;
        if dt <= 700 {
            waited += dt;
        }
        if waited > 2 * runner::WATCHDOG_MS {
            return Err(crate::world::partial_records());
        }
    }
}

/// determinism self-test: print one digest line per scenario; the caller runs this in two fresh
/// processes with different worker counts and diffs the output
pub fn cmd_selftest_digests(n: usize, workers: usize) -> i32 {
    use crate::gen::{self, Knobs};
    use crate::prng::{mix, Rng};
    let seed = seed_from_env();
    let ctx = Ctx::new(workers);
    let out: std::sync::Mutex<Vec<(usize, u64, usize)>> = std::sync::Mutex::new(vec![]);
    let next = std::sync::atomic::AtomicUsize::new(0);
    std::thread::scope(|s| {
        for w in 0..workers {
            let out = &out;
            let next = &next;
            let ctx = &ctx;
            s.spawn(move || {
                crate::world::install_panic_hook();
                loop {
                    let i = next.fetch_add(1, std::sync::atomic::Ordering::Relaxed);
                    if i >= n {
                        break;
                    }
                    let sc = checks::selftest_scenario(seed, i);
                    let text = sc.to_text();
                    let done = std::sync::Arc::new(std::sync::atomic::AtomicBool::new(false));
                    let d2 = done.clone();
                    std::thread::spawn(move || {
                        for _ in 0..300 {
                            std::thread::sleep(Duration::from_millis(100));
                            if d2.load(std::sync::atomic::Ordering::Relaxed) {
                                return;
                            }
                        }
                        let p = format!("/verif/replays/selftest-hang-{}.replay", std::process::id());
                        let _ = std::fs::create_dir_all("/verif/replays");
                        let _ = std::fs::write(&p, text);
                        eprintln!("HARNESS-ERROR: selftest scenario {} hangs (wall-clock); written to {}", i, p);
                        std::process::exit(2);
                    });
                    let rec = crate::world::run(&sc, &ctx.root(w), &ctx.opts);
                    done.store(true, std::sync::atomic::Ordering::Relaxed);
                    let mut h = 0xcbf2_9ce4_8422_2325u64;
                    for l in analysis::render(&rec, usize::MAX) {
                        // the per-process, per-worker scratch directory appears in hostile-name
                        // scenarios ({ROOT} placeholders): it is not part of the history
                        let l = l.replace(rec.root.as_str(), "<run>");
                        h = crate::prng::fnv_add(h, l.as_bytes());
                    }
                    h = crate::prng::fnv_add(h, format!("{:?}{:?}{}", rec.probes, rec.daemon_alive, rec.end_vt).as_bytes());
                    for fs in &rec.fs_final {
                        for (p, c) in fs {
                            h = crate::prng::fnv_add(h, p.as_bytes());
                            if let Some(c) = c {
                                h = crate::prng::fnv_add(h, c);
                            }
                        }
                    }
                    out.lock().unwrap().push((i, h, rec.events.len()));
                }
            });
        }
    });
    let _ = (mix as fn(u64, u64) -> u64, Rng::new as fn(u64) -> Rng, gen::pair_cfg as fn(&mut Rng, &Knobs) -> Scenario);
    let mut v = out.into_inner().unwrap();
    v.sort();
    for (i, h, n) in v {
        println!("{} {:016x} {}", i, h, n);
    }
    ctx.cleanup();
    0
}
