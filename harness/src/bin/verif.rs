use cfdp_verif::{checks::Tier, cli};

#[global_allocator]
static ALLOC: cfdp_verif::alloc_track::Tracking = cfdp_verif::alloc_track::Tracking;

fn usage() -> ! {
    eprintln!("usage: verif run <Cxx> quick|thorough | verif replay <Cxx> <file> [--trace] | verif selftest determinism [n]");
    std::process::exit(2)
}

fn main() {
    let args: Vec<String> = std::env::args().collect();
    let code = match args.get(1).map(|s| s.as_str()) {
        Some("run") => {
            let prop = args.get(2).unwrap_or_else(|| usage());
            let tier = match args.get(3).map(|s| s.as_str()).or(std::env::var("VERIF_TIER").ok().as_deref().map(|_| "env")) {
                Some("thorough") => Tier::Thorough,
                Some("env") => {
                    if std::env::var("VERIF_TIER").unwrap_or_default() == "thorough" { Tier::Thorough } else { Tier::Quick }
                }
                _ => Tier::Quick,
            };
            cli::cmd_run(prop, tier)
        }
        Some("replay") => {
            let prop = args.get(2).unwrap_or_else(|| usage());
            let file = args.get(3).unwrap_or_else(|| usage());
            cli::cmd_replay(prop, file, args.iter().any(|a| a == "--trace"))
        }
        Some("selftest") => {
            let n: usize = args.get(3).and_then(|s| s.parse().ok()).unwrap_or(2000);
            let w: usize = args.get(4).and_then(|s| s.parse().ok()).unwrap_or(1);
            cli::cmd_selftest_digests(n, w)
        }
        Some("runonly") => {
            // execute one scenario and exit (used to confirm a watchdog trip in a fresh process)
            let file = args.get(2).unwrap_or_else(|| usage());
            let text = std::fs::read_to_string(file).unwrap_or_default();
            match cfdp_verif::scenario::Scenario::from_text(&text) {
                Ok(sc) => {
                    let ctx = cfdp_verif::runner::Ctx::new(1);
                    let _ = cfdp_verif::runner::run_one(&ctx, &sc);
                    ctx.cleanup();
                    0
                }
                Err(_) => 2,
            }
        }
        Some("corpus") => {
            let root = camino::Utf8PathBuf::from(format!("/dev/shm/cfdp-verif/{}/corpus", std::process::id()));
            for it in cfdp_verif::wirecorpus::build(&root, None) {
                use cfdp_verif::cfdp_core_reexport::*;
                let r = PDU::decode(&mut it.bytes.as_slice());
                println!("{:50} {:5} {}", it.label, it.bytes.len(), match r { Ok(_) => "ok".to_string(), Err(e) => format!("ERR {}", e) });
            }
            let _ = std::fs::remove_dir_all(format!("/dev/shm/cfdp-verif/{}", std::process::id()));
            0
        }
        _ => usage(),
    };
    std::process::exit(code);
}
