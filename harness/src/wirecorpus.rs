//! Corpus of valid datagrams for the wire-seam checks (C06, C15, C16): everything real entities
//! put on the simulated link in a set of small scenarios (all id widths, CRC on/off, TLV-bearing
//! metadata and Finished, NAK, prompts, keep-alive, cancel handshakes), plus directly constructed
//! PDUs the daemons do not emit themselves (large-file flag, the remaining metadata TLVs,
//! segmented file data).

use std::collections::HashSet;

use camino::Utf8PathBuf;
use cfdp_core::pdu::{
    Condition, DeliveryCode, FileDataPDU, FileStatusCode, FileStoreAction, FileStoreRequest,
    FlowLabel, MessageToUser, MetadataPDU, MetadataTLV, Operations, PDUEncode, PDUPayload,
    RecordContinuationState, SegmentedData, SegmentedFileData, PDU,
};

use crate::{
    pdus::Hdr,
    props::{file_put, pre_file, req},
    scenario::*,
    world::{self, EvKind, RunOpts},
};

#[derive(Clone, Debug)]
pub struct Item {
    pub label: String,
    pub bytes: Vec<u8>,
    pub crc: bool,
}

fn scenarios(crc_filter: Option<bool>) -> Vec<Scenario> {
    let mut v = vec![];
    for idw in [1u8, 2, 4, 8] {
        for crc in [false, true] {
            if crc_filter.map(|c| c != crc).unwrap_or(false) {
                continue;
            }
            let mut base = Scenario::default();
            base.idw = idw;
            for e in base.ents.iter_mut() {
                e.crc = crc;
                e.seg = 64;
                e.limit = 3;
            }
            // acknowledged, 2.5 segments, metadata and one data PDU lost, prompts, TLVs
            let mut a = base.clone();
            let mut p = file_put(false, 160, Content::Rand, 7 + idw as u64);
            p.reqs = vec![req(0, "new.txt", ""), req(3, "a.txt", "b.txt"), req(2, "a.txt", "moved.txt")];
            p.msgs = vec![b"hello user".to_vec(), vec![0xFF; 3]];
            a.pre = vec![pre_file(1, "a.txt", 9, 1), pre_file(1, "b.txt", 5, 2)];
            a.puts.push(p);
            a.script = vec![
                Entry::Fault { src: 0, dst: 1, sel: Sel::Kind(Kind::Md, 0), act: Act::Drop },
                Entry::Fault { src: 0, dst: 1, sel: Sel::Kind(Kind::Fd, 1), act: Act::Drop },
                Entry::User { ent: 0, op: UserOp::PromptKa, put: 0, at: Trigger::AfterKind { src: 0, dst: 1, kind: Kind::Fd, k: 0 } },
                Entry::User { ent: 0, op: UserOp::PromptNak, put: 0, at: Trigger::AfterKind { src: 0, dst: 1, kind: Kind::Fd, k: 2 } },
            ];
            v.push(a);
            // cancel at the sender mid-transfer, and at the receiver
            for who in [0usize, 1] {
                let mut c = base.clone();
                c.ser_us = 500;
                c.puts.push(file_put(false, 640, Content::Counter, 3));
                c.script = vec![Entry::User { ent: who, op: UserOp::Cancel, put: 0, at: Trigger::AfterKind { src: 0, dst: 1, kind: Kind::Fd, k: 3 } }];
                v.push(c);
            }
            // unacknowledged with closure; empty file
            let mut u = base.clone();
            for e in u.ents.iter_mut() {
                e.closure = true;
            }
            u.puts.push(file_put(true, 0, Content::Zero, 1));
            v.push(u);
            // one 1 KiB data PDU
            if idw == 2 {
                let mut k = base.clone();
                for e in k.ents.iter_mut() {
                    e.seg = 1024;
                }
                k.puts.push(file_put(false, 1024, Content::Rand, 99));
                v.push(k);
            }
        }
    }
    v
}

fn direct(crc_filter: Option<bool>) -> Vec<Item> {
    let mut v = vec![];
    for crc in [false, true] {
        if crc_filter.map(|c| c != crc).unwrap_or(false) {
            continue;
        }
        for (idw, large) in [(2u8, true), (8, true), (1, false)] {
            let h = Hdr { idw, src: 1, seq: 5, dst: 2, unack: false, crc, large };
            let tag = format!("direct idw={} crc={} large={}", idw, crc as u8, large as u8);
            let big = if large { 0x1_0000_0010u64 } else { 1000 };
            v.push(Item { label: format!("{} md", tag), bytes: h.metadata(big + 77, "src/file", "dst/file", true, false, vec![FileStoreRequest { action_code: FileStoreAction::CreateDirectory, first_filename: Utf8PathBuf::from("d"), second_filename: Utf8PathBuf::new() }]), crc });
            v.push(Item { label: format!("{} fd", tag), bytes: h.filedata(big, &[1, 2, 3, 4, 5, 6, 7]), crc });
            v.push(Item { label: format!("{} eof", tag), bytes: h.eof(Condition::NoError, 0xDEADBEEF, big + 77), crc });
            v.push(Item { label: format!("{} eof-cancel", tag), bytes: h.eof(Condition::CancelReceived, 1, big), crc });
            v.push(Item { label: format!("{} nak", tag), bytes: h.nak((0, big + 77), &[(0, 0), (5, big), (big + 1, big + 9)]), crc });
            v.push(Item { label: format!("{} ka", tag), bytes: h.keepalive(big + 3), crc });
            v.push(Item { label: format!("{} fin", tag), bytes: h.finished(Condition::FileChecksumFailure, DeliveryCode::Incomplete, FileStatusCode::Unreported), crc });
            v.push(Item { label: format!("{} ackeof", tag), bytes: h.ack_eof(Condition::NoError), crc });
            v.push(Item { label: format!("{} ackfin", tag), bytes: h.ack_fin(Condition::NoError), crc });
            v.push(Item { label: format!("{} prompt", tag), bytes: h.prompt(true), crc });
            // the remaining metadata TLVs (not the EntityID TLV: its encoded_len() is one short of
            // its encoding, a C05 matter outside the properties claimed here; see DESIGN.md)
            let md = PDUPayload::Directive(Operations::Metadata(MetadataPDU {
                closure_requested: false,
                checksum_type: cfdp_core::filestore::ChecksumType::Null,
                file_size: 12,
                source_filename: Utf8PathBuf::from("a"),
                destination_filename: Utf8PathBuf::from("b"),
                options: vec![
                    MetadataTLV::FlowLabel(FlowLabel { value: vec![9, 8, 7] }),
                    MetadataTLV::MessageToUser(MessageToUser { message_text: b"cfdp\x01\x02".to_vec() }),
                ],
            }));
            v.push(Item { label: format!("{} md-tlvs", tag), bytes: h.bytes(true, md), crc });
            // length-value fields on their boundary values (0, 1, 254, 255 octets): file names, a
            // message to the user, a flow label and the names of a filestore request
            for (k, n) in [0usize, 1, 254, 255].into_iter().enumerate() {
                let name = |c: char| Utf8PathBuf::from(std::iter::repeat(c).take(n).collect::<String>());
                // a TLV announces at most 255 octets: action + two length-value names
                let half = |c: char| Utf8PathBuf::from(std::iter::repeat(c).take(n.min(126)).collect::<String>());
                let md = PDUPayload::Directive(Operations::Metadata(MetadataPDU {
                    closure_requested: k % 2 == 0,
                    checksum_type: cfdp_core::filestore::ChecksumType::Modular,
                    file_size: 3,
                    source_filename: name('s'),
                    destination_filename: name('d'),
                    options: vec![
                        MetadataTLV::FileStoreRequest(FileStoreRequest { action_code: FileStoreAction::RenameFile, first_filename: half('f'), second_filename: half('g') }),
                        MetadataTLV::MessageToUser(MessageToUser { message_text: vec![0x41; n] }),
                        MetadataTLV::FlowLabel(FlowLabel { value: vec![7; n] }),
                    ],
                }));
                v.push(Item { label: format!("{} md-lv{}", tag, n), bytes: h.bytes(true, md), crc });
            }
            // segmented file data
            let mut pdu = h.pdu(
                true,
                PDUPayload::FileData(FileDataPDU::Segmented(SegmentedFileData {
                    record_continuation_state: RecordContinuationState::First,
                    segment_metadata: vec![0xAB, 0xCD],
                    offset: big,
                    file_data: vec![5; 9],
                })),
            );
            pdu.header.segment_metadata_flag = SegmentedData::Present;
            v.push(Item { label: format!("{} fd-segmented", tag), bytes: pdu.encode(), crc });
        }
    }
    v
}

/// build the corpus (deterministic); `crc_filter` keeps only datagrams with / without CRC
pub fn build(root: &camino::Utf8PathBuf, crc_filter: Option<bool>) -> Vec<Item> {
    let mut seen: HashSet<Vec<u8>> = HashSet::new();
    let mut out = vec![];
    for (si, sc) in scenarios(crc_filter).iter().enumerate() {
        let rec = world::run(sc, root, &RunOpts { sample_puts: false, ..RunOpts::default() });
        for e in &rec.events {
            if let EvKind::Send { kind, bytes, injected: false, pdu: Some(_), .. } = &e.k {
                if seen.insert((**bytes).clone()) {
                    out.push(Item { label: format!("sim#{} idw={} crc={} {}", si, sc.idw, sc.ents[0].crc as u8, kind.name()), bytes: (**bytes).clone(), crc: sc.ents[0].crc });
                }
            }
        }
    }
    for it in direct(crc_filter) {
        if seen.insert(it.bytes.clone()) {
            out.push(it);
        }
    }
    // every corpus member decodes (harness self-check is done by the callers)
    let _ = PDU::decode(&mut out[0].bytes.as_slice());
    out
}
