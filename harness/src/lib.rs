pub mod alloc_track;
pub mod analysis;
pub mod checks;
pub mod cli;
pub mod content;
pub mod custom;
pub mod gen;
pub mod json;
pub mod minimise;
pub mod oracle;
pub mod prng;
pub mod props;
pub mod runner;
pub mod scenario;
pub mod simfs;
pub mod pdus;
pub mod sweep;
pub mod wirecorpus;
pub mod world;

pub mod cfdp_core_reexport {
    pub use cfdp_core::pdu::{PDUEncode, PDU};
}
