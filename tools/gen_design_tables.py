#!/usr/bin/env python3
"""Regenerates the tables of DESIGN.md section 14 (between the GENERATED markers) from
known_findings.jsonl and seeded/*/meta.json."""
import json, glob, os, re, subprocess
out = []
out.append("### 14.3 Genuine defects found and repaired (from known_findings.jsonl)\n")
out.append("| property | fix commit | what failed |")
out.append("|---|---|---|")
for l in open('/verif/known_findings.jsonl'):
    l = l.strip()
    if not l: continue
    d = json.loads(l)
    what = d['what']
    what = re.sub(r'^fixed: property=\S+ \S+ ', '', what)
    out.append("| %s | `%s` | %s |" % (d['property'], d['commit'], what.replace('|', '\\|')))
n_fix = len([l for l in subprocess.check_output(['git', '-C', '/repo', 'log', '--format=%s']).decode().splitlines() if l.startswith('fix:')])
out.append("\n%d `fix:` commits in /repo in total; none is listed as a *known* (unrepaired) finding: every defect met so far had a small repair.\n" % n_fix)
out.append("### 14.4 Seeded property-breaking changes (from seeded/*/meta.json)\n")
out.append("Each was written by a fresh sub-agent that saw only the property text and its own scratch worktree; each was confirmed independently (demo fails with the change, passes without; pinned suite green with the change).\n")
metas = [json.load(open(m)) for m in sorted(glob.glob('/verif/seeded/*/meta.json'))]
def first_try(d):
    c = d['checks_run'].lower()
    return not ('missed' in c or 'not detected' in c or 'after strengthening' in c)
n = len(metas); ok1 = sum(1 for d in metas if first_try(d)); nd = sum(1 for d in metas if d['checks_run'].startswith('NOT DETECTED'))
out.append("Five rounds with one change per applicable property and round (19 x 5 = 95), a sixth round for fourteen of them and a seventh for twelve (C01-C04, C07, C08, C10, C11, C13, C17-C19): **%d kept, %d reported by the registered quick check at the first try, %d only after the check was strengthened (what was missing is said in the last column and in section 13), %d not detected (all three from the seventh round, which ended with the time available: C02, C04, C17 - the reason and the job that would be needed are in the last column and in section 14.5).** All changes of rounds 1-3 were re-applied to the tree as it stood after round 3, and all 35 changes of the seven properties whose checks changed in rounds 4-5 (C11, C12, C13, C15, C16, C18, C19) once more after round 5 (those of C04 and C11 again after round 6, those of C02, C08 and C17 again after the last repair in `/repo`), each time with the owning quick check re-run (`seeded/RECHECK_ON_FINAL_TREE.txt`): all reported except `C19-ack-timer-armed-when-finished-prepared`, which a later repair made harmless - its own demonstration passes on the final tree. (One of those runs, `C12-two-excess-dotdot-climb-out`, ended with exit 2 once and with exit 1 in four repetitions: the change lets filestore operations climb two levels above the root, into the harness's own scratch directory.)\n" % (n, ok1, n - ok1 - nd, nd))
out.append("| kept as | property | needs, in order to manifest | result of the registered check |")
out.append("|---|---|---|---|")
for m in sorted(glob.glob('/verif/seeded/*/meta.json')):
    d = json.load(open(m))
    name = os.path.basename(os.path.dirname(m))
    out.append("| `%s` | %s | %s | %s |" % (name, d['property'], d['needs_to_manifest'].replace('|', '\\|'), d['checks_run'].replace('|', '\\|')))
text = open('/verif/DESIGN.md').read()
b, e = '<!-- BEGIN GENERATED -->', '<!-- END GENERATED -->'
i, j = text.index(b), text.index(e)
text = text[:i + len(b)] + "\n" + "\n".join(out) + "\n" + text[j:]
open('/verif/DESIGN.md', 'w').write(text)
print("tables regenerated:", len(out), "lines")
