#!/bin/sh
# confirm_seeded.sh <worktree> <demo cargo test args...>
# In a scratch worktree left by a sub-agent (change applied, demo in place, out/patch.diff):
#  1. with the change: demo must FAIL, the pinned suite must pass (except f1s08-f1s10)
#  2. without the change: demo must PASS
# Prints a 4-line verdict; full logs in <worktree>/out/confirm.log
WT="$1"; shift
cd "$WT" || exit 2
LOG="$WT/out/confirm.log"; : > "$LOG"
git apply --check -R out/patch.diff 2>/dev/null || { echo "patch not applied in worktree?"; git apply out/patch.diff || exit 2; }
echo "== with change: demo" >> "$LOG"
cargo test --offline "$@" >> "$LOG" 2>&1; D1=$?
echo "== with change: suite" >> "$LOG"
cargo nextest run --workspace --no-fail-fast --tool-config-file pb:/w/lib/nextest.toml --profile pb --test-threads 8 --offline > "$WT/out/confirm_suite.log" 2>&1
grep -E "^\s+(FAIL|Summary)" "$WT/out/confirm_suite.log" | sort -u >> "$LOG"
FAILS=$(grep -E "^\s+FAIL" "$WT/out/confirm_suite.log" | grep -v "demo_c" | sed -E 's/.*\] *//' | awk '{print $NF}' | sort -u | tr '\n' ' ')
git apply -R out/patch.diff || exit 2
echo "== without change: demo" >> "$LOG"
cargo test --offline "$@" >> "$LOG" 2>&1; D2=$?
git apply out/patch.diff
echo "demo_with_change_exit=$D1 (want !=0)"
echo "suite_failures_with_change=[$FAILS] (demo tests excluded; want subset of f1s08 f1s09 f1s10)"
echo "demo_without_change_exit=$D2 (want 0)"
grep -E "Summary" "$WT/out/confirm_suite.log" | tail -1
