#!/bin/sh
# try_seeded.sh <patch.diff> <property>: apply a change to /repo, run the property's quick check (at most
# 15 minutes), undo the change; prints the summary lines
cd /verif
[ -z "$(git -C /repo status --porcelain)" ] || { echo "/repo not clean"; exit 2; }
git -C /repo apply "$1" || exit 2
out=$(timeout 900 ./check "$2" quick 2>&1); rc=$?
git -C /repo checkout -- .
echo "$2 exit=$rc $(echo "$out" | grep -a -E "^$2:" | tail -1 | cut -c1-110)"
echo "$out" | grep -a -E "signature|HARNESS" | head -3 | cut -c1-220
find /verif/replays -name '*.replay' -delete
