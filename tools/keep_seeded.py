#!/usr/bin/env python3
"""keep_seeded.py <name> <worktree> <property> <needs-to-manifest> <detected-by> [confirm-output-file]
Copies out/patch.diff, the demo files and notes from a sub-agent's scratch worktree to
/verif/seeded/<name>/ and writes meta.json."""
import sys, os, shutil, json, glob
name, wt, prop, needs, detected = sys.argv[1:6]
conf = open(sys.argv[6]).read() if len(sys.argv) > 6 else ""
d = '/verif/seeded/' + name
os.makedirs(d, exist_ok=True)
for f in glob.glob(wt + '/out/*'):
    b = os.path.basename(f)
    if b.endswith('.log') and b != 'confirm.log':
        continue
    if os.path.isfile(f) and os.path.getsize(f) < 200000:
        shutil.copy(f, d + '/' + b)
meta = {
    "property": prop,
    "origin": "fresh sub-agent given only the property text and its own scratch worktree of /repo",
    "needs_to_manifest": needs,
    "confirmed": {
        "how": "tools/confirm_seeded.sh in the scratch worktree: demo with change fails, pinned suite with change passes (except f1s08-f1s10), demo without change passes",
        "output": [l for l in conf.strip().splitlines() if l and not l.startswith('WARNING') and not l.startswith('[exited')],
    },
    "checks_run": detected,
}
json.dump(meta, open(d + '/meta.json', 'w'), indent=1)
print("kept", d, os.listdir(d))
