#!/bin/sh
# soak_quick.sh <first-seed> <last-seed>: every claimed check's quick tier under each seed; prints
# only lines that need attention plus one summary line per seed
cd "$(dirname "$0")/.."
for s in $(seq "$1" "$2"); do
  out=$(tools/all_quick.sh "$s" 2>&1)
  bad=$(echo "$out" | grep -a -E "exit=[1-9]|VIOLATION|HARNESS" )
  echo "seed=$s checks=$(echo "$out" | grep -a -c 'exit=') nonzero=$(echo "$out" | grep -a -c -E 'exit=[1-9]')"
  [ -n "$bad" ] && echo "$bad"
done
exit 0
