#!/usr/bin/env python3
"""Regenerates /verif/MANIFEST.json from the table below (kept next to the code so the manifest
never drifts from what ./check accepts)."""
import json, subprocess

TECH = "deterministic simulation with fault injection (seeded search over schedules and fault scripts, real daemons on a virtual clock)"
NOTE = "trusted base: tokio's paused clock and current-thread scheduler, tmpfs, the harness's link/user/oracle code; a clean batch is evidence over the sampled scripts, not proof"

CLAIMED = {
 "C01": ("sim", "exploration", "seeded search over (configuration, content, link-fault script) plus a storage-fault job (failed open, no staging file, full disk) and a corruption job (PDU CRC off, one data bit of a file-data PDU flipped under the modular checksum, every FileChecksumFailure handler) with byte-identity oracle at every success report", "DESIGN.md 6/C01"),
 "C02": ("sim", "fault_enumeration", "systematic single/pair fault placements over every PDU of both directions + seeded admissible scripts; completion oracle inside the stated envelope", "DESIGN.md 6/C02"),
 "C03": ("sim", "fault_enumeration", "cut-point sweep (blackout at every PDU index, either/both directions, permanent/healing) + crash-point sweep (either entity crashes after every PDU and is restarted on the surviving files after 1 ms .. never) + seeded unbounded link, stall, clock-jump and storage faults; virtual-time termination bound, canary transfers, spin guard", "DESIGN.md 6/C03"),
 "C04": ("sim", "fault_enumeration", "window-forcing losses x re-delivery of every previously sent PDU (pairs in the thorough tier) at several offsets after the receiver's success report; finality oracle over file digests, filestore-request executions and integrity reports", "DESIGN.md 6/C04"),
 "C18": ("sim", "fault_enumeration", "unacknowledged mode x closure x size x content grid, every single/double drop/dup/delay over the exchange + seeded faults; PDU-kind monitor, truth-of-outcome oracle, closure wait", "DESIGN.md 6/C18"),
}
EXTRA = {}
try:
    exec(open('/verif/tools/manifest_extra.py').read())
except FileNotFoundError:
    pass
CLAIMED.update(EXTRA)

NA = {
 "C05": "not applicable to this technique: a pure function of its input (encode/decode round trip), no schedule, clock, fault, I/O or second party in the statement or its quantifier; see DESIGN.md 6/C05",
}
ALL = ["C%02d" % i for i in range(1, 21)]

hooks = [l.split()[0] for l in subprocess.check_output(
    ["git", "-C", "/repo", "log", "--format=%h %s"]).decode().splitlines() if "verif hook" in l]
hooks.reverse()

engines = {}
checks = []
for pid in ALL:
    if pid in CLAIMED:
        eng, cat, text, ref = CLAIMED[pid][:4]
        tech = CLAIMED[pid][4] if len(CLAIMED[pid]) > 4 else TECH
        note = CLAIMED[pid][5] if len(CLAIMED[pid]) > 5 else NOTE
        engines.setdefault(eng, []).append(pid)
        checks.append({
            "property_id": pid,
            "quick_cmd": "./check %s quick" % pid,
            "thorough_cmd": "./check %s thorough" % pid,
            "evidence_file": "/verif/evidence/%s.json" % pid,
            "replay_cmd_template": "./check %s --replay {path}" % pid,
            "engine": eng,
            "level_claimed": {"category": cat, "text": text, "design_ref": ref},
            "level_note": note,
            "technique": tech,
        })
na = []
for pid in ALL:
    if pid not in CLAIMED:
        na.append({"property_id": pid, "reason": NA.get(pid, "check not built yet in this revision (planned, see DESIGN.md section 0)")})

KINDS = {
 "sim": "deterministic discrete-event simulation of real cfdp daemons (paused tokio clock, seeded select!, scripted byte link, simulated users and peers, recording filestore seam)",
 "wire": "fault enumeration on the byte link seam: damaged datagrams fed to the real decoder through the transport's receive path, in isolation and injected into live simulated daemons",
 "io": "simulated Read+Seek with scripted short reads / EINTR under the real checksum routine, plus real daemons over the simulated link",
 "udp": "real UdpTransport on loopback driven one datagram at a time (kernel loopback not simulated)",
}
m = {
 "version": 1,
 "setup_cmd": "cd /verif/harness && CARGO_NET_OFFLINE=true RUSTFLAGS=\"--cfg cfdp_verif --cfg tokio_unstable\" cargo build --release --offline",
 "hooks": {
  "guard": "cfdp_verif",
  "enable": "RUSTFLAGS=\"--cfg cfdp_verif --cfg tokio_unstable\" (set by ./check and by harness/.cargo/config.toml); the harness depends on /repo/cfdp-core and /repo/cfdp-daemon by path and rebuilds them from the working tree",
  "baseline_off_cmd": "cd /repo && cargo nextest run --workspace --no-fail-fast --tool-config-file pb:/w/lib/nextest.toml --profile pb --test-threads 8 --offline",
  "source_commits": hooks,
  "add_only": False,
 },
 "engines": [{"name": e, "path": "/verif/harness", "serves_properties": ps, "kind_free_text": KINDS.get(e, e)} for e, ps in engines.items()],
 "checks": checks,
 "not_applicable": na,
 "notes": "exit 0 = held on everything explored; 1 = VIOLATION line; 2 = harness error (no verdict). Known findings: /verif/known_findings.jsonl. Replays of repaired defects: /verif/findings/*.replay (re-run by every sim check).",
}
json.dump(m, open('/verif/MANIFEST.json', 'w'), indent=1)
print("claimed:", [c["property_id"] for c in checks])
