#!/bin/sh
# runs every claimed check's quick tier with the given seed; prints one line per check
SEED="${1:-20260922}"
cd "$(dirname "$0")/.."
for p in $(python3 -c "import json;print(' '.join(c['property_id'] for c in json.load(open('MANIFEST.json'))['checks']))"); do
  t0=$(date +%s)
  out=$(VERIF_SEED=$SEED ./check $p quick 2>&1); rc=$?
  t1=$(date +%s)
  echo "$p seed=$SEED exit=$rc $((t1-t0))s $(echo "$out" | grep -a -E "^$p:" | tail -1)"
  echo "$out" | grep -a -E "VIOLATION|KNOWN-FINDING|HARNESS" | head -5
done
