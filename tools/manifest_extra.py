WIRE_TECH = "deterministic simulation with fault injection at the wire seam (enumerated and seeded damage of captured datagrams fed to the real decoder, plus injection into live simulated daemons)"
EXTRA = {
 "C06": ("wire", "fault_enumeration", "every truncation, every single-octet mutation with boundary values, forced length/flag/id-length fields of every corpus datagram, all short strings, seeded garbage; panic/allocation/time/canonical-form oracle per decode call; damaged datagrams injected into live daemons which must keep serving", "DESIGN.md 6/C06", WIRE_TECH,
         "trusted base: catch_unwind + panic hook, the counting global allocator, the corpus builder; overflow-checks on as in the test profile; a clean batch is evidence over the enumerated damage, not proof"),
 "C12": ("sim", "exploration", "bounded-exhaustive name alphabet (<= 4 components incl. '..', '.', '', leading '/', the root path, a sibling extending the root's name) used as remote destination name, in all 9 filestore actions (first/second name) and as local source name, end to end through the real daemon and NativeFileStore; jail-sentinel, secret-leak and lexical native-path oracles", "DESIGN.md 6/C12"),
 "C14": ("io", "exploration", "real checksum routine over a simulated Read+Seek with scripted short reads and EINTR, systematic lengths x chunk sizes plus seeded cases, against an independent CCSDS model", "DESIGN.md 6/C14",
         "deterministic simulation with fault injection at the I/O seam (scripted short reads / EINTR under the real checksum routine, seeded search)",
         "trusted base: the SimReader, the reference checksum (10 lines), std BufReader"),
 "C15": ("wire", "fault_enumeration", "every single-bit flip, pairs, every burst pattern up to 8 (thorough 12; 16 for one datagram per kind) bits at every position >= octet 4 of every CRC-protected corpus datagram, seeded odd-weight patterns; in situ corruption must behave as loss", "DESIGN.md 6/C15", WIRE_TECH,
         "trusted base: the corpus builder and the flip enumerator; a clean batch covers the enumerated patterns on the captured datagrams, not all datagrams"),
 "C16": ("udp", "fault_enumeration", "every truncation length of every corpus datagram after itself, after the longest and after seeded longer datagrams, one datagram in flight at a time through the real UdpTransport on loopback; oracle = decode of the datagram's own bytes", "DESIGN.md 6/C16",
         "deterministic, serialised datagram histories against the real UdpTransport (kernel loopback UDP is not simulated; one datagram in flight, so no kernel nondeterminism is observable)",
         "trusted base: kernel loopback UDP delivering one datagram at a time; a missing datagram is a harness error, never a verdict"),
}
