#!/bin/sh
# recheck_seeded.sh: applies every seeded change to /repo in turn, runs the owning property's quick
# check and undoes the change; prints one line per change. /repo must be clean; nothing else may use
# /repo meanwhile.
cd /verif
[ -z "$(git -C /repo status --porcelain)" ] || { echo "/repo not clean"; exit 2; }
for d in seeded/*/; do
  n=$(basename "$d"); p=$(python3 -c "import json;print(json.load(open('$d/meta.json'))['property'])")
  if ! git -C /repo apply --check "/verif/$d/patch.diff" 2>/dev/null; then echo "$n $p NOAPPLY"; continue; fi
  git -C /repo apply "/verif/$d/patch.diff"
  out=$(./check "$p" quick 2>&1); rc=$?
  git -C /repo checkout -- .
  echo "$n $p exit=$rc $(echo "$out" | grep -a -c VIOLATION) violation lines; $(echo "$out" | grep -a signature | head -1 | cut -c1-150)"
done
find /verif/replays -name '*.replay' -delete
